/-
C11 — a commit that reports an I/O error neither corrupts nor half-applies.

* every file operation of `write_data` propagates its error (checked by the translator, which refuses
  to regenerate the step list otherwise) and `commit` can fail only at the fallible steps;
* a failure leaves on disk a *kill* image of the operations issued so far, hence the previous or the
  new commit, complete (`failed_commit_is_atomic`, from C02's kill theorem, including a short header
  write);
* the in-memory shared free list is published iff this transaction's header is the visible one, at
  every failure point of the regenerated step order and on success (`generated_order_fault_consistent`,
  decided by kernel evaluation over all failure points and both outcomes of a partial header write);
  `pinned_order_fault_inconsistent` and `publish_after_write_insufficient` are the machine-checked
  witnesses of the repaired defect (D9) and of why the obvious smaller repair would not have been enough.
What the Lean part does NOT carry (it is two booleans over the step list): that `commit` returns `Err` and
does not panic, the state of the map after a failed `resize`, the fallible header re-read inside the
publication guard, and a quiescent disk after a failed final sync — these are what the fault runs decide,
per case: the shim reports whether it delivered an error and the driver demands that `commit` returned it.
`failed_commit_is_atomic` / `failed_header_write_is_atomic` are instances of C02's kill / crash theorems;
the content specific to C11 is `FaultConsistent` on the regenerated order and its two negative witnesses.
AT THE LEVEL OF FILE BYTES (`Model/CommitFile.lean`, `Proofs/CommitFile*.lean`, regenerated layout and checksum order):
* `failed_data_write_shows_previous_state`: whatever a commit that failed before its header write left in the
  file — any of its data writes, complete, short or not at all — `open` (same handle through the map, or a reopen)
  shows exactly the previous state, as long as no write touched a page that state owns (evaluated per commit);
* `failed_header_write_shows_old_or_new`: whatever a failed or short header write left inside the header page,
  `open` shows exactly the previous or exactly the new state, provided the page does not verify as a third
  record (NoTornCollision, evaluated on every short write the shim delivers: the reopened state must be one of
  the two).
Tie: every write / fsync index of real commits is failed through the LD_PRELOAD shim (EIO, ENOSPC after
a short write), extension through RLIMIT_FSIZE; afterwards the visible state must be exactly before or
after, the Lean file checker and DB::check must pass, three more commits and a reopen must refine the
specification.
-/
import Jamm.Proofs.IoLemmas
import Jamm.Proofs.CommitFileAtomic
import Jamm.Gen.Steps
import Jamm.Gen.Layout
import Jamm.Gen.HashOrder
set_option linter.unusedSectionVars false

namespace Jamm.Props.C11
open Jamm

theorem generated_order_fault_consistent : FaultConsistent Gen.commitSteps = true := by decide

/-- whatever prefix of the commit's operations was issued before the failure, the file shows the
previous or the new commit, complete -/
theorem failed_commit_is_atomic (c : CommitCtx) (hc : c.Ok) (k : Nat) :
    Atomic c ((({ durable := c.img0, pending := [] } : Disk).run ((safeShape c).take k)).kill) :=
  kill_atomic c hc k

/-- a header write that fails after a short write leaves either the old slot content or a torn slot or
the full header: the power-loss theorem with the header's fate covers all three -/
theorem failed_header_write_is_atomic (c : CommitCtx) (hc : c.Ok) (fate : Fate) :
    Atomic c ((({ durable := c.img0, pending := [] } : Disk).run ((safeShape c).take (c.dirty.length + 2))).crash [fate]) :=
  crash_atomic c hc (c.dirty.length + 2) [fate]

theorem generated_order_is_safe_shape (c : CommitCtx) :
    commitOps Gen.commitSteps c.dirty (1 - c.slot) c.hpost = safeShape c := by
  simp [commitOps, Gen.commitSteps, safeShape]

/-- D9 (repaired): publishing only after the final sync leaves a visible header with a stale free list -/
theorem pinned_order_fault_inconsistent :
    FaultConsistent [.freeOldFreelist, .allocFreelist, .grow, .writeData, .strictCheck, .writeMeta, .flush, .sync, .publishFreelist] = false := by
  decide

/-- publishing right after the header `write_all` returned would not have been enough: a header write
that reports an error can already have made the header visible -/
theorem publish_after_write_insufficient :
    FaultConsistent [.freeOldFreelist, .allocFreelist, .grow, .writeData, .sync, .strictCheck, .writeMeta, .publishFreelist, .flush, .sync] = false := by
  decide

/-! ## At the level of file bytes -/

/-- a commit that failed before its header write: any byte source that keeps the previous state's bytes and both
header pages shows exactly the previous state -/
theorem failed_data_write_shows_previous_state (pagesize : Nat)
    (hrec : Gen.layout.pgPtr + Gen.layout.metaSize ≤ pagesize) (ov : Nat → Nat) (s c : Src) (slot : Nat)
    (hslot : slot = 0 ∨ slot = 1) (old : Opened)
    (h : Committed Gen.layout Gen.hashOrder pagesize ov s slot old)
    (k : KeepsState pagesize ov s c slot old)
    (hother : Src.AgreeOn s c ((1 - slot) * pagesize) ((1 - slot) * pagesize + pagesize))
    (fuel : Nat) (hf : old.view.weight ≤ fuel) :
    openFile Gen.layout Gen.hashOrder pagesize fuel c = some old := by
  have hE : Layout.WFEnc Gen.layout = true := by decide
  have hL : Layout.WFMeta Gen.layout = true := by decide
  have hhdr : Gen.layout.pageSize ≤ pagesize := Nat.le_trans (by decide) hrec
  refine crash_shows_old Gen.layout Gen.hashOrder pagesize (Layout.WF.of _ hE) (Layout.WFM.of _ hL) hrec hhdr ov s c
    slot hslot old h.1 k ?_ fuel hf
  rw [slotValid_agree Gen.layout Gen.hashOrder pagesize (Layout.WFM.of _ hL) hrec s c (1 - slot) k.1 hother]
  exact h.2.2

/-- a header write that failed or came up short: whatever is now inside the new header page, as long as it does
not verify as a third record, `open` shows exactly the previous or exactly the new state -/
theorem failed_header_write_shows_old_or_new (pagesize : Nat)
    (hrec : Gen.layout.pgPtr + Gen.layout.metaSize ≤ pagesize) (ov ov' : Nat → Nat) (s1 d : Src) (slot : Nat)
    (hslot : slot = 0 ∨ slot = 1) (old new : Opened)
    (hold : Holds Gen.layout Gen.hashOrder pagesize ov s1 slot old) (habove : ∀ r ∈ old.runs ov, 2 ≤ r.1)
    (hst : StoredV Gen.layout pagesize ov' s1 new.view)
    (hfl : ∃ p, decodePage Gen.layout s1 pagesize new.hdr.freelistPage = .ok p ∧ p.body = .freelist new.free ∧
      p.overflow = new.flOverflow)
    (c : HeaderOK Gen.layout Gen.hashOrder pagesize ov' s1 old new)
    (hsz : d.size = s1.size)
    (hout : ∀ i, i < (1 - slot) * pagesize ∨ (1 - slot) * pagesize + pagesize ≤ i → d.get i = s1.get i)
    (hno : slotValid Gen.layout Gen.hashOrder d pagesize (1 - slot) = none ∨
      slotValid Gen.layout Gen.hashOrder d pagesize (1 - slot) = some new.hdr)
    (fuel : Nat) (hfo : old.view.weight ≤ fuel) (hfn : new.view.weight ≤ fuel) :
    openFile Gen.layout Gen.hashOrder pagesize fuel d = some old ∨
    openFile Gen.layout Gen.hashOrder pagesize fuel d = some new :=
  incomplete_header_write_old_or_new Gen.layout Gen.hashOrder pagesize (by decide) (by decide) hrec
    (Nat.le_trans (by decide) hrec) ov ov' s1 d slot hslot old new hold habove hst hfl c hsz hout hno fuel hfo hfn

end Jamm.Props.C11
