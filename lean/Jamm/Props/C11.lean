/-
C11 — a commit that reports an I/O error neither corrupts nor half-applies.

* every file operation of `write_data` propagates its error (checked by the translator, which refuses
  to regenerate the step list otherwise) and `commit` can fail only at the fallible steps;
* a failure leaves on disk a *kill* image of the operations issued so far, hence the previous or the
  new commit, complete (`failed_commit_is_atomic`, from C02's kill theorem, including a short header
  write);
* the in-memory shared free list is published iff this transaction's header is the visible one, at
  every failure point of the regenerated step order and on success (`generated_order_fault_consistent`,
  decided by kernel evaluation over all failure points and both outcomes of a partial header write);
  `pinned_order_fault_inconsistent` and `publish_after_write_insufficient` are the machine-checked
  witnesses of the repaired defect (D9) and of why the obvious smaller repair would not have been enough.
What the Lean part does NOT carry (it is two booleans over the step list): that `commit` returns `Err` and
does not panic, the state of the map after a failed `resize`, the fallible header re-read inside the
publication guard, and a quiescent disk after a failed final sync — these are what the fault runs decide,
per case: the shim reports whether it delivered an error and the driver demands that `commit` returned it.
`failed_commit_is_atomic` / `failed_header_write_is_atomic` are instances of C02's kill / crash theorems;
the content specific to C11 is `FaultConsistent` on the regenerated order and its two negative witnesses.
Tie: every write / fsync index of real commits is failed through the LD_PRELOAD shim (EIO, ENOSPC after
a short write), extension through RLIMIT_FSIZE; afterwards the visible state must be exactly before or
after, the Lean file checker and DB::check must pass, three more commits and a reopen must refine the
specification.
-/
import Jamm.Proofs.IoLemmas
import Jamm.Gen.Steps
set_option linter.unusedSectionVars false

namespace Jamm.Props.C11
open Jamm

theorem generated_order_fault_consistent : FaultConsistent Gen.commitSteps = true := by decide

/-- whatever prefix of the commit's operations was issued before the failure, the file shows the
previous or the new commit, complete -/
theorem failed_commit_is_atomic (c : CommitCtx) (hc : c.Ok) (k : Nat) :
    Atomic c ((({ durable := c.img0, pending := [] } : Disk).run ((safeShape c).take k)).kill) :=
  kill_atomic c hc k

/-- a header write that fails after a short write leaves either the old slot content or a torn slot or
the full header: the power-loss theorem with the header's fate covers all three -/
theorem failed_header_write_is_atomic (c : CommitCtx) (hc : c.Ok) (fate : Fate) :
    Atomic c ((({ durable := c.img0, pending := [] } : Disk).run ((safeShape c).take (c.dirty.length + 2))).crash [fate]) :=
  crash_atomic c hc (c.dirty.length + 2) [fate]

theorem generated_order_is_safe_shape (c : CommitCtx) :
    commitOps Gen.commitSteps c.dirty (1 - c.slot) c.hpost = safeShape c := by
  simp [commitOps, Gen.commitSteps, safeShape]

/-- D9 (repaired): publishing only after the final sync leaves a visible header with a stale free list -/
theorem pinned_order_fault_inconsistent :
    FaultConsistent [.freeOldFreelist, .allocFreelist, .grow, .writeData, .strictCheck, .writeMeta, .flush, .sync, .publishFreelist] = false := by
  decide

/-- publishing right after the header `write_all` returned would not have been enough: a header write
that reports an error can already have made the header visible -/
theorem publish_after_write_insufficient :
    FaultConsistent [.freeOldFreelist, .allocFreelist, .grow, .writeData, .sync, .strictCheck, .writeMeta, .publishFreelist, .flush, .sync] = false := by
  decide

end Jamm.Props.C11
