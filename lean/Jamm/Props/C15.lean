/-
C15 — files written by earlier versions stay readable.

* `layout_pinned`: the byte layout regenerated from the `#[repr(C)]` structs of the current source is
  the layout of the pinned release (page header, leaf / branch elements, bucket header, header record,
  legacy record, type tags) — re-decided on every run;
* `magic_version_pinned`, `hash_order_pinned`, `legacy_hash_order_pinned`: magic, version and the
  big-endian field order fed to both checksums are the pinned ones;
* the header is looked for in the current format first and the legacy format second, and a valid header
  with another page size is refused before anything else is read (`mismatch_refused_*`).
The logical half (identical contents, further commits accepted) is decided by the correspondence run on
golden files written by the pinned release; every file any check produces is parsed by this same
pinned-layout reader.
-/
import Jamm.Model.Codec
import Jamm.Gen.Layout
import Jamm.Gen.HashOrder
set_option linter.unusedSectionVars false

namespace Jamm.Props.C15
open Jamm

theorem layout_pinned : Gen.layout = Pinned.layout := by decide

theorem magic_version_pinned : Gen.layout.magic = 0x00ABCDEF ∧ Gen.layout.version = 1 := by decide

theorem hash_order_pinned :
    Gen.hashOrder = [.metaPage, .magic, .version, .pagesize, .rootPage, .nextInt, .numPages, .freelistPage, .txId] := by
  decide

theorem legacy_hash_order_pinned : Gen.oldHashOrder = Gen.hashOrder := by decide

/-- a valid header naming another page size is refused, whichever slot holds it -/
theorem mismatch_refused_slot0 (a : MetaRec) (v1 : Option MetaRec) (ps : Nat) (h : a.pagesize ≠ ps) :
    selectSlots (some a) v1 ps = .error .pagesizeMismatch := by
  simp [selectSlots, h]

theorem mismatch_refused_slot1 (b : MetaRec) (ps : Nat) (h : b.pagesize ≠ ps) :
    selectSlots none (some b) ps = .error .pagesizeMismatch := by
  simp [selectSlots, h]

/-- the legacy format is consulted only when neither slot is valid in the current format, and a
page-size mismatch found in the current format is final -/
theorem current_format_first (L : Layout) (order oldOrder : List MetaField) (digest : List UInt8 → List UInt8)
    (s : Src) (ps : Nat) (m : MetaRec)
    (h : selectSlots (slotValid L order s ps 0) (slotValid L order s ps 1) ps = .ok (some m)) :
    openAny L order oldOrder digest s ps = .ok m := by
  simp [openAny, h]

theorem legacy_fallback (L : Layout) (order oldOrder : List MetaField) (digest : List UInt8 → List UInt8)
    (s : Src) (ps : Nat) (m : MetaRec)
    (h0 : slotValid L order s ps 0 = none) (h1 : slotValid L order s ps 1 = none)
    (h : selectSlots (slotValidOld L oldOrder digest s ps 0) (slotValidOld L oldOrder digest s ps 1) ps = .ok (some m)) :
    openAny L order oldOrder digest s ps = .ok m := by
  have hn : selectSlots (none : Option MetaRec) none ps = .ok none := rfl
  simp only [openAny, h0, h1, hn, h]

end Jamm.Props.C15
