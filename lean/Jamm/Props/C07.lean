/-
C07 — a write transaction reads its own uncommitted changes.

Model: inside a transaction a bucket's tree is the committed tree with some leaves edited (possibly
emptied); branch entries are never edited before commit (`bucket.rs` `put_leaf`/`delete`, see
`Jamm/Model/Tree.lean`).  Theorems, for every well-formed starting tree, every sequence of edits and
every key: the edited tree's contents are the reference map's contents after the same operations,
the tree stays well-formed (so every read theorem of C08 applies to it, emptied leaves included),
and a point lookup returns what the reference map returns.
-/
import Jamm.Proofs.TxLemmas
import Jamm.Proofs.CursorLemmas
import Jamm.Proofs.FileCheckLemmas
import Jamm.Proofs.OverlayLemmas
set_option linter.unusedSectionVars false
open Std

namespace Jamm.Props.C07
open Jamm
variable {K E : Type} [Ord K] [TransOrd K] [LawfulEqOrd K] [DecidableEq K]

/-- the contents seen after any sequence of puts and deletes are the reference's -/
theorem own_writes_contents (t : Tree K E) (h : WF none none t) (ops : List (TxOp K E)) :
    (ops.foldl Tree.applyOp t).flatten = ops.foldl Spec.applyOp t.flatten :=
  (applyOps_spec t h ops).1

/-- the edited tree is still well-formed: reads on it are covered by the Layer Q theorems -/
theorem own_writes_wf (t : Tree K E) (h : WF none none t) (ops : List (TxOp K E)) :
    WF none none (ops.foldl Tree.applyOp t) :=
  (applyOps_spec t h ops).2

/-- point lookups at any moment of the transaction return the reference's answer -/
theorem own_writes_lookup (t : Tree K E) (h : WF none none t) (ops : List (TxOp K E)) (key : K) :
    (ops.foldl Tree.applyOp t).lookup key =
      (Spec.lookup key (ops.foldl Spec.applyOp t.flatten)).map (fun e => (key, e)) := by
  have h1 := applyOps_spec t h ops
  rw [← h1.1]
  exact lookup_spec none none _ h1.2 key trivial trivial

/-- the contents stay strictly ascending whatever the transaction does -/
theorem own_writes_sorted (t : Tree K E) (h : WF none none t) (ops : List (TxOp K E)) :
    Spec.Sorted (ops.foldl Tree.applyOp t).flatten :=
  (flatten_sorted none none _ (applyOps_spec t h ops).2).1

/-- a full cursor scan at any moment of the transaction yields exactly the reference's contents -/
theorem own_writes_scan (t : Tree K E) (h : WF none none t) (ops : List (TxOp K E)) (n : Nat)
    (hn : (ops.foldl Spec.applyOp t.flatten).length < n) :
    (Cursor.drain n { root := ops.foldl Tree.applyOp t }).1 = ops.foldl Spec.applyOp t.flatten := by
  have h1 := applyOps_spec t h ops
  obtain ⟨hc, hp⟩ := startCursor_spec _ h1.2.shp
  rw [drain_fresh_eq _ h1.2.shp, if_neg (by omega)]
  rw [(drain_spec _ n _ hc (by rw [hp, h1.1]; exact hn)).1, hp, h1.1]

/-- seek inside the transaction is correct with respect to the reference's contents -/
theorem own_writes_seek (t : Tree K E) (h : WF none none t) (ops : List (TxOp K E)) (key : K) (n : Nat)
    (hn : (ops.foldl Spec.applyOp t.flatten).length < n) :
    let r := Cursor.seek { root := ops.foldl Tree.applyOp t } key
    Spec.SeekOk (ops.foldl Spec.applyOp t.flatten) key r.1 (Cursor.drain n r.2).1 := by
  have h1 := applyOps_spec t h ops
  rw [← h1.1]
  exact seek_spec _ h1.2 key n (by rw [h1.1]; exact hn)

/-- every range scan inside the transaction yields exactly the reference's entries within the bounds -/
theorem own_writes_range (t : Tree K E) (h : WF none none t) (ops : List (TxOp K E))
    (lo hi : Spec.Bound K) (n : Nat) (hn : (ops.foldl Spec.applyOp t.flatten).length < n) :
    RangeIt.drain n { c := { root := ops.foldl Tree.applyOp t }, lo := lo, hi := hi } =
      Spec.range (ops.foldl Spec.applyOp t.flatten) lo hi := by
  have h1 := applyOps_spec t h ops
  rw [← h1.1]
  exact range_spec _ h1.2 lo hi n (by rw [h1.1]; exact hn)

/-- non-vacuity: emptying the middle leaf of a two-level tree and inserting below the minimum -/
example :
    let t : Tree Nat Nat := .branch 5 (.cons 10 (.leaf 6 [(10, 1)]) (.cons 20 (.leaf 7 [(20, 2)]) (.cons 30 (.leaf 8 [(30, 3)]) .nil)))
    wfb none none t = true ∧
    ([TxOp.del 20, TxOp.put 3 9].foldl Tree.applyOp t).flatten = [(3, 9), (10, 1), (30, 3)] := by
  decide

/-! ### the tie used by the correspondence run.  After every edit of a write transaction the run compares the
real overlay tree (dumped through the feature-gated hook) with `Tree.refill committed (contents)`: the
committed tree with its leaves emptied and every item of the current contents put back.  These theorems say
that this order-free prediction *is* the tree the model's edits produce one by one. -/

/-- leaf edits never change the branch structure (keys, page ids) -/
theorem edits_keep_branch_structure (t : Tree K E) (key : K) (e : E) :
    (t.put key e).emptied = t.emptied ∧ (t.del key).emptied = t.emptied :=
  ⟨emptied_put t key e, emptied_del t key⟩

/-- for every sequence of edits: the overlay predicted from the committed tree and the final contents is the
tree obtained by applying the edits in order -/
theorem overlay_prediction_is_exact (t0 : Tree K E) (h : WF none none t0) (ops : List (TxOp K E)) :
    t0.refill (ops.foldl Tree.applyOp t0).flatten = ops.foldl Tree.applyOp t0 :=
  refill_eq_edits t0 h ops

end Jamm.Props.C07
