import Driver.Locks

/-- `jlocks`: search of the five-lock model at the regenerated step tables (its own executable: the history
driver must not depend on the step tables, so that a failed regeneration breaks only C09 and its kin) -/
def main : IO UInt32 := Driver.Locks.main
