/-
Driver glue for C09: search of the five-lock model (`Jamm/Model/LockOrder.lean`) instantiated at the step
tables regenerated from the source.  When the theorem `generated_programs_ordered` no longer checks (a lock
is taken in another order, or a function takes a lock it did not take before), this search looks for the
concrete consequence: a schedule of two or three threads, each running one transaction, that reaches a state
in which somebody has work left and nobody can move.  Breadth first over the reachable states (a state is the
vector of program counters), so the schedule printed is a shortest one.
-/
import Jamm.Model.LockOrder
import Jamm.Gen.Steps
import Std.Data.HashSet
open Jamm Jamm.LockOrder

namespace Driver.Locks

def genTables : Tables :=
  { begin := Gen.beginSteps, commit := Gen.commitSteps, resize := Gen.resizeSteps, drop := Gen.dropSteps,
    mlocks := Gen.metaLocks }

def kinds : List (String × Kind) :=
  [("reader", .read), ("writer-commit-grows", .write (some (.full true))), ("writer-commit", .write (some (.full false))),
   ("writer-commit-grows-header-reread", .write (some ⟨true, true, true, none⟩)), ("writer-rollback", .write none)]

def pcs (s : Sys) : List Nat := s.threads.map (fun t => t.prog.length)

def fmtAct : Act → String
  | .acq l => s!"acquire {repr l}"
  | .acqRead => "acquire M(read)"
  | .rel l => s!"release {repr l}"
  | .relRead => "release M(read)"

/-- breadth-first search for a stuck state; returns the schedule that reaches it -/
partial def bfs (queue : Array (Sys × List Nat)) (head : Nat) (seen : Std.HashSet (List Nat)) (limit : Nat) :
    Option (Sys × List Nat) × Nat :=
  if head ≥ queue.size || seen.size > limit then (none, seen.size) else
  match queue[head]? with
  | none => (none, seen.size)
  | some (s, sched) =>
  let n := s.threads.length
  let en := (List.range n).filter (fun i => s.enabled i)
  if en.isEmpty && !s.allFinished then (some (s, sched.reverse), seen.size) else
  let (queue, seen) := en.foldl (fun (acc : Array (Sys × List Nat) × Std.HashSet (List Nat)) i =>
    let s' := s.step i
    let k := pcs s'
    if acc.2.contains k then acc else (acc.1.push (s', i :: sched), acc.2.insert k)) (queue, seen)
  bfs queue (head + 1) seen limit

def combos : List (List (String × Kind)) :=
  (kinds.flatMap (fun a => kinds.map (fun b => [a, b]))) ++
  (kinds.flatMap (fun a => kinds.flatMap (fun b => kinds.map (fun c => [a, b, c]))))

def main : IO UInt32 := do
  let mut states := 0
  let mut configs := 0
  for (name, k) in kinds do
    if !Ordered (program genTables k) then
      IO.println s!"UNORDERED {name}: {(program genTables k).map fmtAct}"
  for admit in [false, true] do
    for c in combos do
      let s0 := Sys.init (c.map (fun x => program genTables x.2)) admit
      let (r, n) := bfs #[(s0, [])] 0 (Std.HashSet.emptyWithCapacity.insert (pcs s0)) 400000
      states := states + n
      configs := configs + 1
      match r with
      | some (s, sched) =>
        IO.println s!"DEADLOCK admit={admit} threads={c.map (·.1)} schedule={sched}"
        for (t, i) in s.threads.zipIdx do
          IO.println s!"  thread {i} ({(c.getD i ("?", .read)).1}): holds {repr t.held.ex}{if t.held.rd then " M(read)" else ""}, next: {(t.prog.head?.map fmtAct).getD "finished"}"
        return 1
      | none => pure ()
  IO.println s!"LOCKS ok configurations={configs} states={states}"
  return 0

end Driver.Locks
