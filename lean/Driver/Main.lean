import Driver.Hist
import Driver.File
import Driver.Proto
import Driver.Conc
import Driver.Proc
import Driver.LayerC
import Jamm.Model.CommitInv
import Jamm.Model.CommitTight
import Jamm.Model.ImplCheck
import Std.Data.HashMap
open Driver Jamm

abbrev Counts := Std.HashMap String Nat

def keepSnaps : Bool := false

def outcomeClass (got : String) : String :=
  if got.startsWith "err:" || got.startsWith "panic:" then (got.take 32).toString
  else if got.startsWith "ok" then "ok"
  else "val"

def bump (c : Counts) (k : String) : Counts := c.insert k (c.getD k 0 + 1)

structure Loop where
  st : St := {}
  cur : String := ""
  lineNo : Nat := 1
  nOps : Nat := 0
  failed : Bool := false
  nHist : Nat := 0
  nBad : Nat := 0
  cnt : Counts := {}
  proto : Option ProtoSt := none
  lastFile : Option FileSum := none
  commitsSinceFile : Nat := 0
  protoChecked : Nat := 0
  protoOff : Bool := false
  refused : Bool := false
  pretrees : List (String × Bool × CTree) := []
  notes : Option (List Note) := none
  allocs : Option (List (Nat × Nat)) := none
  fileFresh : Bool := false   -- a `file` line was seen after the last commit
  callsReplayed : Nat := 0
  layerC : Nat := 0
  layerCSteps : Nat := 0
  /-- the bucket trees of the file as last decoded; `viewFresh` while no commit has happened since -/
  lastView : Option BucketView := none
  viewFresh : Bool := false
  overlays : Nat := 0
  reenc : Nat := 0
  /-- the decoded file and its tree pages as they were when the pending commit's overlay was dumped -/
  preView : Option (BucketView × List Nat) := none
  lastTreeReach : List Nat := []
  pagesPredicted : Nat := 0
  commitsSinceView : Nat := 0
  protoCompared : Nat := 0
  extChecked : Nat := 0
  reusedRuns : Nat := 0
  placedExact : Nat := 0
  placeUndec : Nat := 0
  plateauSegs : Nat := 0
  maxMark : Nat := 0
  /-- a fault was armed for the next commit (C11) -/
  faultArmed : Bool := false
  faultErrno : Nat := 0
  lastCommit : String := ""
  faultsResolved : Nat := 0
  protoInits : Nat := 0
  /-- after a commit that returned an I/O error: the state before it (the model holds the state after it) -/
  ambiguous : Option DBS := none

def Loop.fail (l : Loop) (kind msg : String) : IO Loop := do
  IO.println s!"RESULT {l.cur} {kind} line={l.lineNo} {msg}"
  return { l with failed := true, nBad := l.nBad + 1 }

/-- the free-list protocol state is dropped (close / reopen / end of history): fold its counters into the
history's and check the plateau bound over the stretch it covered -/
def Loop.retireProto (l : Loop) : IO Loop := do
  match l.proto with
  | none => return l
  | some p =>
    IO.println s!"PROTO {l.cur} commits-checked={p.checked} maxNonFree={p.maxNonFree} maxRun={p.maxReq} numPages0={p.numPages0} numPages={p.sys.numPages} extensions={p.extensions} reused={p.reused} placed={p.placed} undecided={p.placeUndecided} burned={p.burnedCommits} invariant=ok"
    let l := { l with proto := none, extChecked := l.extChecked + p.extensions, reusedRuns := l.reusedRuns + p.reused,
                      placedExact := l.placedExact + p.placed, callsReplayed := l.callsReplayed + p.callsReplayed, placeUndec := l.placeUndec + p.placeUndecided,
                      plateauSegs := l.plateauSegs + (if p.checked > 0 then 1 else 0), maxMark := max l.maxMark p.sys.numPages }
    if !p.plateauOk && !l.failed then
      l.fail "PLATEAUDIFF" s!"the page mark reached {p.sys.numPages} (from {p.numPages0}) although at most {p.maxNonFree} pages were ever non-free and no run longer than {p.maxReq} was requested: bound {p.maxReq * (p.maxNonFree + 2) + 1}"
    else return l

def Loop.endHist (l : Loop) : IO Loop := do
  if l.cur == "" then return l else
    let l ← l.retireProto
    if l.protoCompared > 0 || l.protoInits > 0 then IO.println s!"STAT proto_commits_compared={l.protoCompared} extension_runs_checked_against_free_list={l.extChecked} runs_placed_on_released_pages={l.reusedRuns} commits_whose_placement_first_fit_reproduces={l.placedExact} commits_placement_undecided={l.placeUndec} plateau_stretches_checked={l.plateauSegs} allocation_calls_replayed={l.callsReplayed} free_list_vs_file_checks_at_start={l.protoInits}"
    if l.layerC > 0 || l.overlays > 0 || l.reenc > 0 then IO.println s!"STAT layerc_buckets_compared={l.layerC} layerc_rebalance_steps_replayed={l.layerCSteps} overlay_trees_predicted={l.overlays} pages_reencoded={l.reenc} commits_whose_freed_pages_were_predicted={l.pagesPredicted}"
    if !l.failed || l.refused then IO.println s!"RESULT {l.cur} OK ops={l.nOps}"
    return l

/-- one transcript line -/
def stepLine (l : Loop) (line : String) : IO Loop := do
  let (lhs, got) := match line.splitOn " => " with
    | [a, b] => (a, b)
    | [a] => (a, "")
    | a :: rest => (a, " => ".intercalate rest)
    | [] => ("", "")
  if lhs.startsWith "!" then
    -- performed when the golden file was created (by the pinned release): replayed on the model only
    if l.failed then return l
    let r := stepOp l.st ((lhs.drop 1).toString.splitOn " ")
    return { l with st := r.st }
  let f := lhs.splitOn " "
  let op := f.headD ""
  if op == "hist" then
    let l ← l.endHist
    return { l with st := {}, cur := f.getD 1 "?", nOps := 0, failed := false, nHist := l.nHist + 1,
                    proto := none, lastFile := none, commitsSinceFile := 0, protoOff := false, refused := false, pretrees := [], notes := none, layerC := 0, layerCSteps := 0, lastView := none, viewFresh := false, overlays := 0, reenc := 0, preView := none, lastTreeReach := [], pagesPredicted := 0, commitsSinceView := 0, protoCompared := 0,
                    callsReplayed := 0, allocs := none, fileFresh := false, protoInits := 0, faultsResolved := 0, lastCommit := "", extChecked := 0, reusedRuns := 0, placedExact := 0, placeUndec := 0, plateauSegs := 0, maxMark := 0 }
  if l.failed then return l
  let r := stepOp l.st f
  let l := { l with cnt := bump l.cnt (op ++ "/" ++ outcomeClass got) }
  -- C16: a page size the builder accepts must work — or be refused cleanly when the database is opened;
  -- a refusal is only acceptable for sizes that are not a multiple of the word size
  if (op == "open" || op == "reopen") && l.st.pagesize % 8 != 0 && got.startsWith "panic:Pagesize" then
    IO.println s!"REFUSED {l.cur} pagesize={l.st.pagesize}"
    return { l with failed := true, nOps := l.nOps + 1, refused := true }
  -- C11: a commit may report an I/O error only when a fault was injected; afterwards the database
  -- must show exactly the state before or exactly the state after it (resolved at the next dump)
  if op == "commit" && got == "err:Io" then
    if !l.faultArmed then
      return ← l.fail "SPECDIFF" s!"op=[{lhs}] expected=[ok] got=[{got}] (no fault was injected)"
    else
      return { l with st := r.st, nOps := l.nOps + 1, ambiguous := some l.st.committed, faultArmed := false, lastCommit := got,
                      commitsSinceFile := l.commitsSinceFile + 2, proto := none, protoOff := true }
  if op == "dump" then
    match l.ambiguous with
    | some pre =>
      let post := dumpBucket l.st.committed [] true
      let preS := dumpBucket pre [] true
      if got == post then return { l with ambiguous := none, nOps := l.nOps + 1, protoOff := false, commitsSinceFile := 0, fileFresh := false }
      else if got == preS then
        let t := (f.getD 1 "0").toNat!
        let st' := { l.st with committed := pre, txs := l.st.txs.map (fun x => if x.id == t then { x with db := pre } else x) }
        return { l with st := st', ambiguous := none, nOps := l.nOps + 1, protoOff := false, commitsSinceFile := 0, fileFresh := false }
      else
        return ← l.fail "SPECDIFF" s!"op=[{lhs}] expected=[{preS} | {post}] got=[{got}] (after a commit that reported an I/O error)"
    | none => pure ()
  -- outcome against the specification
  if !(r.allowed.isEmpty || r.allowed.contains got) then
    return ← l.fail "SPECDIFF" s!"op=[{lhs}] expected=[{" | ".intercalate r.allowed}] got=[{got}]"
  let l := { l with st := r.st, nOps := l.nOps + 1 }
  match op with
  | "fhash" => return { l with st := { l.st with lastHash := some got } }
  | "pretrees" =>
    let pts := parsePretrees got
    let mut l := { l with pretrees := pts, notes := none,
                          preView := if l.viewFresh then l.lastView.map (fun v => (v, l.lastTreeReach)) else none }
    -- Layer T tie: the model's leaf edits on the committed tree must give the overlay the real
    -- transaction has built (shape and entries, page ids forgotten)
    match l.viewFresh, l.lastView, l.st.tx? (f.getD 1 "0").toNat! with
    | true, some root, some tx =>
      for (path, _, pre) in pts do
        let names := if path == "-" then [] else (path.splitOn "/").map unhex
        let t0? : Option CTree :=
          if nodePage pre.pid == 0 then some (.leaf 0 [])      -- created in this transaction
          else (findView root names).map (fun v => toEntT v.tree)
        match t0?, Spec.getBucket tx.db names with
        | some t0, some _ =>
          let pred := fmtShape (predictOverlay t0 (Spec.scan tx.db names))
          let real := fmtShape pre
          if pred != real then
            return ← l.fail "OVERLAYDIFF" s!"op=[{lhs}] bucket=[{path}] model=[{pred}] real=[{real}]"
          l := { l with overlays := l.overlays + 1 }
        | _, _ => pure ()
    | _, _, _ => pure ()
    return l
  | "notes" => return { l with notes := some (parseNotes got), allocs := some (parseAllocs got) }
  | "fault" => return { l with faultArmed := got == "ok", faultErrno := (f.getD 3 "0").toNat! }
  | "fired" =>
    -- C11: what the injected fault did during the last commit.  An error that was delivered to a write or
    -- fsync of the commit must come back from `commit`; a short write without error, or a fault that
    -- never fired, must not make it fail
    if got == "err" && l.lastCommit == "ok" then
      return ← l.fail "FAULTDIFF" s!"op=[{lhs}] an I/O error (errno {l.faultErrno}) was returned to a write or fsync of the commit, but commit returned ok"
    else if (got == "none" || got == "short") && l.lastCommit == "err:Io" then
      return ← l.fail "FAULTDIFF" s!"op=[{lhs}] commit reported an I/O error although the shim returned none (fault: {got})"
    else return { l with faultsResolved := l.faultsResolved + (if got == "noshim" then 0 else 1), cnt := bump l.cnt ("fired/" ++ got ++ "/commit-" ++ l.lastCommit) }
  | "limit" => return { l with faultArmed := (f.getD 1 "inf") != "inf" }
  | "commit" =>
    if got == "ok" then return { l with lastCommit := got, allocs := none, fileFresh := false, commitsSinceFile := l.commitsSinceFile + 1, commitsSinceView := l.commitsSinceView + 1, viewFresh := false } else return { l with lastCommit := got, allocs := none, viewFresh := false }
  | "open" | "reopen" | "close" =>
    let l ← l.retireProto
    return { l with proto := none, lastFile := none, commitsSinceFile := 0 }
  | "usefile" => return { l with viewFresh := false }
  | "begin" =>
    if f.getD 2 "" == "r" && got == "ok" then
      match l.proto with
      | some p => return { l with proto := some { p with sys := p.sys.step .beginR, readerTx := p.readerTx ++ [(f.getD 1 "0").toNat!] } }
      | none => return l
    else if f.getD 2 "" == "w" && got == "ok" then
      -- the writer decides what to release NOW, from the readers registered now
      -- (overlay dumps and notes describe one write transaction: whatever an earlier one left is stale)
      let l := { l with pretrees := [], notes := none, allocs := none }
      match l.proto with
      | some p => return { l with proto := some { p with wBegin := some p.sys.beginWriter, writerTx := some (f.getD 1 "0").toNat! } }
      | none => return l
    else return l
  | "drop" =>
    match l.proto with
    | some p =>
      let t := (f.getD 1 "0").toNat!
      match p.readerTx.findIdx? (· == t) with
      | some i => return { l with proto := some { p with sys := p.sys.step (.endR i), readerTx := p.readerTx.eraseIdx i } }
      | none =>
        if p.writerTx == some t then return { l with proto := some { p with wBegin := none, writerTx := none } }
        else return l
    | none => return l
  | "file" =>
    -- `file => <path>`: decode the real bytes, check well-formedness and accounting, compare contents
    let rep ← checkPath got l.st.pagesize
    if !keepSnaps then (try IO.FS.removeFile got catch _ => pure ())
    let want := dumpBucket l.st.committed [] true
    if !rep.ok then
      return ← l.fail "FILEBAD" s!"op=[{lhs}] detail=[{rep.msg}] numPages={rep.numPages} txId={rep.txId}"
    if rep.dump != want then
      return ← l.fail "FILEDIFF" s!"op=[{lhs}] expected=[{want}] got=[{rep.dump}]"
    -- Layer C: the model's rebalance replay + spill, applied to the overlay trees seen before the commit,
    -- must give the shape of the trees the real commit wrote
    let mut l := l
    match l.notes, rep.view with
    | some notes, some root =>
      for (path, dirty, pre) in l.pretrees do
        let names := if path == "-" then [] else (path.splitOn "/").map unhex
        match findView root names with
        | none => pure ()   -- deleted in this transaction
        | some v =>
          -- the Layer C invariants are evaluated on what the real code had before and wrote after
          if !(wfsb (K := Bytes) none none pre) || (uniformB pre).isNone || !(tightB (K := Bytes) none pre) then
            return ← l.fail "INVDIFF" s!"op=[{lhs}] bucket=[{path}] the overlay tree before commit violates Sep/tightness/uniform-depth: {fmtShape pre}"
          let post := toEntT v.tree
          if !(wfsb (K := Bytes) none none post) || (uniformB post).isNone || !(tightB (K := Bytes) none post) || !(nebT post) then
            return ← l.fail "INVDIFF" s!"op=[{lhs}] bucket=[{path}] the committed tree violates Sep/tightness/uniform-depth or has an empty branch"
          let dirty := dirty || effDirty l.pretrees names
          let touched := touchedKeys l.pretrees root names
          if dirty then
            let mid := rebalanced pre notes touched
            if !(wfsb (K := Bytes) none none mid) || (uniformB mid).isNone || !(tightMB (K := Bytes) none mid) || !(nebT mid) then
              return ← l.fail "INVDIFF" s!"op=[{lhs}] bucket=[{path}] the model tree after the rebalance replay violates Sep/tightness-at-untouched-pages/uniform-depth or has a childless branch (the hypothesis of `commitTree_wf`): {fmtShape mid}"
          let want := fmtShape (toEntT v.tree)
          let pred := if dirty then predictBucket l.st.pagesize pre notes touched else pre
          let got' := fmtShape pred
          if got' != want then
            return ← l.fail "SHAPEDIFF" s!"op=[{lhs}] bucket=[{path}] model=[{got'}] file=[{want}]"
          l := { l with layerC := l.layerC + 1, layerCSteps := l.layerCSteps + (if dirty then (rbStepsFor pre notes).length else 0) }
      -- Layer C → A: the tree pages this commit freed (old tree pages that are no longer tree pages) must be
      -- exactly the pages the model says it frees, and it must have taken as many new pages as the model requests
      match l.preView with
      | some (old, oldReach) =>
        if l.commitsSinceView == 1 then
          let realFreed := sortNat (listDiff oldReach rep.treeReach)
          let predFreed := sortNat (predictFreed l.st.pagesize l.pretrees notes root [] old).eraseDups
          if realFreed != predFreed then
            return ← l.fail "PAGEDIFF" s!"op=[{lhs}] freed pages: real-only={(listDiff realFreed predFreed).take 12} model-only={(listDiff predFreed realFreed).take 12}"
          let realNew := (listDiff rep.treeReach oldReach).length
          let predNew := (l.pretrees.map (fun (ps, _, pre) =>
            let names := namesOf ps
            match findView root names with
            | none => 0
            | some _ =>
              if effDirty l.pretrees names then
                (predictRequests l.st.pagesize (predictBucket l.st.pagesize pre notes (touchedKeys l.pretrees root names))).sum
              else 0)).sum
          if realNew != predNew then
            return ← l.fail "PAGEDIFF" s!"op=[{lhs}] the commit took {realNew} new tree pages, the model requests {predNew}"
          l := { l with pagesPredicted := l.pagesPredicted + 1 }
      | none => pure ()
      l := { l with pretrees := [], notes := none, preView := none }
    | _, _ => pure ()
    IO.println s!"FILE {l.cur} line={l.lineNo} numPages={rep.numPages} txId={rep.txId} free={rep.free} reach={rep.reach} size={rep.fileSize}"
    return { l with cnt := bump l.cnt "file/ok",
                    fileFresh := true,
                    lastFile := some { reach := rep.reachPages, persisted := rep.freePages, numPages := rep.numPages, txId := rep.txId, runs := rep.runs },
                    lastView := rep.view, viewFresh := rep.view.isSome, reenc := l.reenc + rep.pagesReencoded, lastTreeReach := rep.treeReach, commitsSinceView := 0 }
  | "flstate" =>
    match l.lastFile with
    | none => return l
    | some fs =>
      -- the free list can only be attributed to the file it belongs to: without a `file` line after
      -- the last commit stop tracking (never compare against a stale file)
      if !l.fileFresh && l.commitsSinceFile > 0 then return { l with proto := none, protoOff := true, commitsSinceFile := 0 } else
      let impl := parseFlState got
      match l.proto with
      | none =>
        if l.protoOff || !l.fileFresh then return l
        else
          -- (re)start of the protocol tracking: the in-memory free list must fit the file it belongs to —
          -- accounting invariant, and the persisted list is exactly free ∪ pending (this is where a free
          -- list left out of step with the visible header by a failed commit shows)
          let p0 := protoInit fs impl
          if !p0.sys.invB then
            return ← l.fail "PROTODIFF" s!"op=[{lhs}] detail=[the in-memory free list does not satisfy the accounting invariant against the file: free={impl.free.take 12} pending={impl.pending.take 3} numPages={fs.numPages}]"
          else if sortNat (impl.free ++ impl.pendingPages).eraseDups != sortNat fs.persisted then
            return ← l.fail "PROTODIFF" s!"op=[{lhs}] detail=[the free list in memory (free ∪ pending) is not the one the visible header points at: memory-only={(listDiff (impl.free ++ impl.pendingPages) fs.persisted).take 8} file-only={(listDiff fs.persisted (impl.free ++ impl.pendingPages)).take 8}]"
          else return { l with proto := some p0, commitsSinceFile := 0, protoInits := l.protoInits + 1 }
      | some p =>
        if l.commitsSinceFile == 0 then return l
        else if l.commitsSinceFile == 1 then
          match protoCommit p fs impl l.allocs with
          | .ok p' => return { l with allocs := none, proto := some p', commitsSinceFile := 0, protoCompared := l.protoCompared + 1 }
          | .error e => return ← l.fail "PROTODIFF" s!"op=[{lhs}] detail=[{e}]"
        else
          -- more than one commit since the last observation: the writer's page sets cannot be
          -- attributed; stop tracking this history (never guess)
          return { l with proto := none, protoOff := true, commitsSinceFile := 0 }
  | _ => return l

partial def histLoop (h : IO.FS.Stream) (l : Loop) : IO Loop := do
  let line ← h.getLine
  if line.isEmpty then
    return ← l.endHist
  let line := line.trimAscii.toString
  if line.isEmpty then histLoop h { l with lineNo := l.lineNo + 1 }
  else
    let l' ← stepLine l line
    histLoop h { l' with lineNo := l'.lineNo + 1 }

def main (args : List String) : IO UInt32 := do
  match args with
  | ["hist", path] =>
    let h ← IO.FS.Handle.mk path .read
    let l ← histLoop (IO.FS.Stream.ofHandle h) {}
    for (k, v) in l.cnt.toList do
      IO.println s!"STAT {k}={v}"
    IO.println s!"SUMMARY histories={l.nHist} bad={l.nBad}"
    return 0
  | ["proc", path] =>
    -- blocks: `scenario <name> ...` followed by worker observation lines
    let lines ← IO.FS.lines path
    let mut cur : Option String := none
    let mut buf : List String := []
    let mut n := 0
    let flush := fun (hdr : Option String) (b : List String) => do
      match hdr with
      | none => pure ()
      | some h =>
        let probs := checkProc (parseObs b)
        if probs.isEmpty then IO.println s!"PROCOK {h}"
        else for p in probs do IO.println s!"PROCBAD {h} ## {p.1} ## {p.2}"
    for line in lines do
      if line.startsWith "scenario " then
        flush cur buf
        cur := some line
        buf := []
        n := n + 1
      else buf := buf ++ [line]
    flush cur buf
    IO.println s!"SUMMARY scenarios={n}"
    return 0
  | ["conc", path] =>
    let lines ← IO.FS.lines path
    let mut defs : ConcDefs := {}
    let mut cur : Option ConcRun := none
    let mut nrun := 0
    let mut nbad := 0
    for line in lines do
      let f := line.splitOn " "
      match f.headD "" with
      | "run" =>
        cur := some { header := line, program := field line "program", ncommits := (field line "commits").toNat!, nwriters := (field line "writers").toNat!, nreaders := (field line "readers").toNat! }
      | "def" =>
        if f.getD 1 "" == "init" then defs := { defs with init := defs.init ++ [(unhex (f.getD 2 ""), canonVal (f.getD 3 ""))] }
        else defs := { defs with commits := defs.commits ++ [((f.getD 2 "").toNat!, unhex (f.getD 3 ""), canonVal (f.getD 4 ""))] }
      | "wcommit" =>
        cur := cur.map (fun r => { r with wcommits := r.wcommits ++ [((f.getD 1 "").toNat!, (f.getD 2 "").toNat!, (f.getD 3 "").toNat!, f.getD 4 "")] })
      | "robs" =>
        cur := cur.map (fun r => { r with robs := r.robs ++ [(f.getD 1 "" ++ "." ++ f.getD 2 "", (field line "seen").toNat!, field line "d1", field line "d2")] })
      | "overlap" => cur := cur.map (fun r => { r with overlap := (f.getD 1 "0").toNat! })
      | "final" => cur := cur.map (fun r => { r with final := f.getD 1 "" })
      | "deadlock" => cur := cur.map (fun r => { r with deadlock := some (f.getD 1 "") })
      | "tpanic" => cur := cur.map (fun r => { r with tpanics := r.tpanics ++ [line] })
      | "end" =>
        match cur with
        | some r =>
          nrun := nrun + 1
          match checkRun defs r with
          | none => pure ()
          | some why =>
            nbad := nbad + 1
            IO.println s!"CONCBAD {r.header} ## {why}"
          cur := none
        | none => pure ()
      | _ => pure ()
    IO.println s!"SUMMARY runs={nrun} bad={nbad}"
    return 0
  | ["images", path] =>
    -- image stream: `<id> <path> <pagesize>` per line; the model's view of each image
    let lines ← IO.FS.lines path
    for line in lines do
      let f := line.trimAscii.toString.splitOn " "
      match f with
      | [id, p, ps] =>
        let ba ← IO.FS.readBinFile p
        let pagesize := ps.toNat!
        let s := srcOf ba
        match openAny Gen.layout Gen.hashOrder Gen.oldHashOrder Sha3.sha3_256 s pagesize with
        | .error .pagesizeMismatch => IO.println s!"{id} => panic:pagesize"
        | .error _ => IO.println s!"{id} => panic:nometa"
        | .ok mt =>
          let rep := checkBytes Gen.layout Gen.hashOrder ba pagesize false
          -- the model of the database's own check (`TxInner::check`), for comparison with the real verdict
          let pg : PageStore := fun pid =>
            if pid < 2 || pid ≥ mt.numPages then none else
            match decodePage Gen.layout s pagesize pid with
            | .ok p => some p
            | .error _ => none
          let ic := match implCheck mt pg with | .ok _ => "ok" | .error _ => "err"
          if rep.ok then IO.println s!"{id} => ok;dump={rep.dump};check=ok ## tx={mt.txId} slot={mt.metaPage} implcheck={ic}"
          else IO.println s!"{id} => bad:{rep.msg} ## tx={mt.txId} slot={mt.metaPage} implcheck={ic}"
      | _ => pure ()
    return 0
  | ["cow", path] =>
    -- copy-on-write tie (C02, byte-level theorems): per line `<id> <pre> <mid> <post> <pagesize> <off:len>...` with
    -- pre = the file when the commit began, mid = pre + the commit's data writes, post = mid + the header write,
    -- and the data writes as offset:length.  Evaluates the premises of `any_partial_commit_shows_previous_state`
    -- and `header_write_switches_states` on the real commit.
    let lines ← IO.FS.lines path
    for line in lines do
      let f := line.trimAscii.toString.splitOn " "
      match f with
      | id :: pre :: mid :: post :: ps :: ws =>
        let pagesize := ps.toNat!
        let bpre ← IO.FS.readBinFile pre
        let bmid ← IO.FS.readBinFile mid
        let bpost ← IO.FS.readBinFile post
        let rpre := checkBytes Gen.layout Gen.hashOrder bpre pagesize false
        let rmid := checkBytes Gen.layout Gen.hashOrder bmid pagesize false
        let rpost := checkBytes Gen.layout Gen.hashOrder bpost pagesize false
        let mpre := openAny Gen.layout Gen.hashOrder Gen.oldHashOrder Sha3.sha3_256 (srcOf bpre) pagesize
        let mpost := openAny Gen.layout Gen.hashOrder Gen.oldHashOrder Sha3.sha3_256 (srcOf bpost) pagesize
        match mpre, mpost with
        | .ok m0, .ok m1 =>
          if !rpre.ok then IO.println s!"{id} => cow-bad: the file before the commit is not a checked file: {rpre.msg}"
          else if !rpost.ok then IO.println s!"{id} => cow-bad: the file after the commit is not a checked file: {rpost.msg}"
          else
          let owned := rpre.reachPages
          let writes := ws.filterMap (fun w => match w.splitOn ":" with
            | [a, b] => some (a.toNat!, b.toNat!)
            | _ => none)
          -- premise of the crash theorem: no data write touches a header page or a page the previous state owns
          let bad := writes.find? (fun w =>
            let p0 := w.1 / pagesize
            let p1 := (w.1 + w.2 - 1) / pagesize
            p0 < 2 || (List.range (p1 + 1 - p0)).any (fun d => owned.contains (p0 + d)))
          match bad with
          | some w => IO.println s!"{id} => cow-bad: the data write at offset {w.1} (length {w.2}) touches a header page or a page owned by the state the commit started from (pages {owned.take 12}…)"
          | none =>
          -- what the crash theorem then predicts for the file without the header write: exactly the previous state
          if !(rmid.ok && rmid.dump == rpre.dump && rmid.txId == rpre.txId) then
            IO.println s!"{id} => cow-bad: the file after the data writes and before the header write does not show the previous state: {rmid.msg}"
          -- premises of the header-switch theorem: other slot, newer id, and the new state is already stored in mid
          else if m1.metaPage == m0.metaPage || m1.txId ≤ m0.txId then
            IO.println s!"{id} => cow-bad: the new header went to slot {m1.metaPage} with id {m1.txId}, the previous one is slot {m0.metaPage} with id {m0.txId}"
          else
            let s1 := srcOf bmid
            let pg : PageStore := fun pid =>
              if pid < 2 || pid ≥ m1.numPages then none else
              match decodePage Gen.layout s1 pagesize pid with
              | .ok p => some p
              | .error _ => none
            let stored := match checkFile m1 pg bmid.size pagesize, rpost.view with
              | .ok sum, some v => dumpView sum.root true == rpost.dump && viewPages sum.root == viewPages v &&
                  sum.free == rpost.freePages
              | _, _ => false
            if !stored then IO.println s!"{id} => cow-bad: the state named by the new header is not readable from the file as it is before the header write"
            else if !(rpost.runs.all (fun r => 2 ≤ r.1)) then IO.println s!"{id} => cow-bad: the new state owns a header page"
            else
            -- the copy-on-write structure (`SharedV` of `cow_commit_atomic`): every page of the new state was either
            -- written by this commit or is a page of the state it began from (shared, already stored)
            let written := writes.flatMap (fun w =>
              let p0 := w.1 / pagesize
              let p1 := (w.1 + w.2 - 1) / pagesize
              (List.range (p1 + 1 - p0)).map (· + p0))
            match rpost.reachPages.find? (fun p => !written.contains p && !owned.contains p) with
            | some p => IO.println s!"{id} => cow-bad: page {p} of the new state was neither written by this commit nor a page of the state it began from"
            | none => IO.println s!"{id} => cow-ok writes={writes.length} owned={owned.length} newpages={rpost.reachPages.length}"
        | _, _ => IO.println s!"{id} => cow-bad: no valid header before or after the commit"
      | _ => pure ()
    return 0
  | _ =>
    IO.eprintln "usage: jmodel hist <trace> | images <list> | cow <list>"
    return 2
