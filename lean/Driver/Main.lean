import Driver.Hist
import Driver.File
import Std.Data.HashMap
open Driver

abbrev Counts := Std.HashMap String Nat

def keepSnaps : Bool := false

def outcomeClass (got : String) : String :=
  if got.startsWith "err:" || got.startsWith "panic:" then (got.take 32).toString
  else if got.startsWith "ok" then "ok"
  else "val"

def bump (c : Counts) (k : String) : Counts := c.insert k (c.getD k 0 + 1)

/-- verify one transcript file of the history stream; prints one RESULT line per history -/
partial def histLoop (h : IO.FS.Stream) (st : St) (cur : String) (lineNo : Nat) (nOps : Nat)
    (failed : Bool) (nHist nBad : Nat) (cnt : Counts) : IO (Nat × Nat × Counts) := do
  let line ← h.getLine
  if line.isEmpty then
    if cur != "" && !failed then IO.println s!"RESULT {cur} OK ops={nOps}"
    return (nHist, nBad, cnt)
  let line := line.trimAscii.toString
  if line.isEmpty then histLoop h st cur (lineNo + 1) nOps failed nHist nBad cnt
  else
  let (lhs, got) := match line.splitOn " => " with
    | [a, b] => (a, b)
    | [a] => (a, "")
    | a :: rest => (a, " => ".intercalate rest)
    | [] => ("", "")
  let f := lhs.splitOn " "
  if f.head? == some "hist" then
    if cur != "" && !failed then IO.println s!"RESULT {cur} OK ops={nOps}"
    histLoop h {} (f.getD 1 "?") (lineNo + 1) 0 false (nHist + 1) nBad cnt
  else if failed then histLoop h st cur (lineNo + 1) nOps failed nHist nBad cnt
  else
    let r := stepOp st f
    let cnt := bump cnt (f.headD "?" ++ "/" ++ outcomeClass got)
    if f.head? == some "fhash" && (r.allowed.isEmpty || r.allowed.contains got) then
      histLoop h { r.st with lastHash := some got } cur (lineNo + 1) (nOps + 1) false nHist nBad cnt
    else if f.head? == some "file" then
      -- `file => <path>`: decode the real bytes, check well-formedness and accounting, compare contents
      let pagesize := st.pagesize
      let rep ← checkPath got pagesize
      if !keepSnaps then (try IO.FS.removeFile got catch _ => pure ())
      let want := dumpBucket st.committed [] true
      if !rep.ok then
        IO.println s!"RESULT {cur} FILEBAD line={lineNo} op=[{lhs}] detail=[{rep.msg}] numPages={rep.numPages} txId={rep.txId}"
        histLoop h r.st cur (lineNo + 1) nOps true nHist (nBad + 1) cnt
      else if rep.dump != want then
        IO.println s!"RESULT {cur} FILEDIFF line={lineNo} op=[{lhs}] expected=[{want}] got=[{rep.dump}]"
        histLoop h r.st cur (lineNo + 1) nOps true nHist (nBad + 1) cnt
      else
        IO.println s!"FILE {cur} line={lineNo} numPages={rep.numPages} txId={rep.txId} free={rep.free} reach={rep.reach} size={rep.fileSize}"
        histLoop h r.st cur (lineNo + 1) (nOps + 1) false nHist nBad (bump cnt "file/ok")
    else
    if r.allowed.isEmpty || r.allowed.contains got then
      histLoop h r.st cur (lineNo + 1) (nOps + 1) false nHist nBad cnt
    else
      IO.println s!"RESULT {cur} SPECDIFF line={lineNo} op=[{lhs}] expected=[{" | ".intercalate r.allowed}] got=[{got}]"
      histLoop h r.st cur (lineNo + 1) nOps true nHist (nBad + 1) cnt

def main (args : List String) : IO UInt32 := do
  match args with
  | ["hist", path] =>
    let h ← IO.FS.Handle.mk path .read
    let (n, bad, cnt) ← histLoop (IO.FS.Stream.ofHandle h) {} "" 1 0 false 0 0 {}
    for (k, v) in cnt.toList do
      IO.println s!"STAT {k}={v}"
    IO.println s!"SUMMARY histories={n} specdiff={bad}"
    return 0
  | _ =>
    IO.eprintln "usage: jmodel hist <trace>"
    return 2
