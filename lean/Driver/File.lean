/-
Driver glue for the byte-level checks: load a database file, run the Lean decoder and `checkFile`
with the *generated* layout, render the logical dump.
-/
import Driver.Hist
import Jamm.Model.FileCheck
import Jamm.Model.EncodeWrites
import Jamm.Model.EncodeMeta
import Jamm.Gen.Layout
import Jamm.Gen.HashOrder
import Driver.Sha3
open Jamm

namespace Driver

def srcOf (ba : ByteArray) : Src := { size := ba.size, get := fun i => ba.get! i }

def fmtLeafVal (k : Bytes) : LeafVal → String
  | .kv v => s!"K:{hex k}:{vtok v}"
  | .bkt _ _ => s!"B:{hex k}"

partial def dumpView (b : BucketView) (root : Bool) : String :=
  let n := if root then "-" else toString b.nextInt
  let items := b.tree.flatten.map (fun it =>
    match it.2 with
    | .kv _ => fmtLeafVal it.1 it.2
    | .bkt _ _ =>
      match b.subs.find? (fun s => s.1 == it.1) with
      | some s => fmtLeafVal it.1 it.2 ++ dumpView s.2 false
      | none => fmtLeafVal it.1 it.2 ++ "{?}")
  "{n=" ++ n ++ ";" ++ ",".intercalate items ++ "}"

def fmtFileErr : FileErr → String
  | .open_ e => s!"open:{repr e}"
  | .decode p e => s!"decode:page={p}:{repr e}"
  | .notATree p => s!"not-a-tree:page={p}"
  | .notWF p => s!"not-well-formed:bucket-root={p}"
  | .badFreelist => "bad-freelist"
  | .shortFile => "short-file"
  | .accounting d => s!"accounting:{d}"

structure FileReport where
  ok : Bool
  msg : String
  dump : String := ""
  numPages : Nat := 0
  txId : Nat := 0
  free : Nat := 0
  reach : Nat := 0
  fileSize : Nat := 0
  reachPages : List Nat := []
  view : Option BucketView := none
  freePages : List Nat := []
  pagesReencoded : Nat := 0
  treeReach : List Nat := []
  runs : List (Nat × Nat) := []

mutual
partial def treePages : Tree Bytes LeafVal → List Nat
  | .leaf p _ => [p]
  | .branch p kids => p :: forestPages kids
partial def forestPages : Forest Bytes LeafVal → List Nat
  | .nil => []
  | .cons _ t rest => treePages t ++ forestPages rest
end

partial def viewPages (b : BucketView) : List Nat :=
  treePages b.tree ++ b.subs.flatMap (fun s => viewPages s.2)

/-- Layer S writer tie: re-encoding the decoded node with the model of `Page::write_node` must reproduce
the real bytes at every offset the model writes (header fields, element records, packed keys/values) -/
def writerAgrees (L : Layout) (s : Src) (pagesize : Nat) (p : LPage) : Bool :=
  match p.body with
  | .leaf es => (leafPageWrites L pagesize p.id p.overflow es).all (fun w => Src.holds s w)
  | .branch es => (branchPageWrites L pagesize p.id p.overflow es).all (fun w => Src.holds s w)
  | _ => true

/-- the header page: every field write of the model holds, and every other byte of the page is zero (the
model zero-fills the page first, so its writes overlap: compare the net result) -/
def metaPageAgrees (L : Layout) (s : Src) (pagesize : Nat) (mt : MetaRec) : Bool :=
  let base := mt.metaPage * pagesize
  let ws := (metaPageWrites L pagesize mt.metaPage mt).drop 1
  ws.all (fun w => Src.holds s w) &&
  (List.range pagesize).all (fun j =>
    ws.any (fun w => w.1 ≤ base + j && base + j < w.1 + w.2.length) || s.get (base + j) == 0)

/-- decode errors met while unfolding are turned into `notATree`; to report them precisely we probe
the page store for the first decode error among pages reached -/
def checkBytes (L : Layout) (order : List MetaField) (ba : ByteArray) (pagesize : Nat) (writerTie : Bool := true) : FileReport :=
  let s := srcOf ba
  match openAny L order Gen.oldHashOrder Sha3.sha3_256 s pagesize with
  | .error e => { ok := false, msg := fmtFileErr (.open_ e) }
  | .ok mt =>
    let pg : PageStore := fun pid =>
      if pid < 2 || pid ≥ mt.numPages then none else
      match decodePage L s pagesize pid with
      | .ok p => some p
      | .error _ => none
    match checkFile mt pg ba.size pagesize with
    | .ok sum =>
      let pages := viewPages sum.root
      -- (the writer ties apply to files the real code wrote, not to deliberately damaged images)
      match (if writerTie then pages else []).find? (fun pid => match pg pid with
          | some p => p.id != pid || !writerAgrees L s pagesize p
          | none => true) with
      | some pid => { ok := false, msg := s!"writer-layout:page={pid}: the bytes of this page are not what the model of write_node produces for the node it decodes to", numPages := mt.numPages, txId := mt.txId, fileSize := ba.size }
      | none =>
      -- the header page in the current format and the free-list page must be what the model writer produces
      let metaBad := match slotValid L order s pagesize mt.metaPage with
        | some m => writerTie && m == mt && !metaPageAgrees L s pagesize mt
        | none => false
      let flBad := match pg mt.freelistPage with
        | some p => match p.body with
          | .freelist ids => writerTie && !(freelistPageWrites L pagesize p.id p.overflow ids).all (fun w => Src.holds s w)
          | _ => false
        | none => false
      if metaBad then { ok := false, msg := s!"writer-layout:header page {mt.metaPage}: not the bytes the model of the header writer produces for the record it decodes to", numPages := mt.numPages, txId := mt.txId, fileSize := ba.size }
      else if flBad then { ok := false, msg := s!"writer-layout:free-list page {mt.freelistPage}", numPages := mt.numPages, txId := mt.txId, fileSize := ba.size }
      else
      { ok := true, msg := "ok", dump := dumpView sum.root true, numPages := mt.numPages, txId := mt.txId,
        free := sum.free.length, reach := sum.reach.length, fileSize := ba.size,
        reachPages := sum.reach ++ sum.freelistRun, freePages := sum.free, view := some sum.root, pagesReencoded := pages.length, treeReach := sum.reach,
        runs := sum.root.runs pg ++ [(mt.freelistPage, sum.freelistRun.length)] }
    | .error e =>
      let detail := match e with
        | .notATree p => match decodePage L s pagesize p with
          | .error d => s!" ({repr d})"
          | .ok q => s!" (type/count {repr q.count})"
        | _ => ""
      { ok := false, msg := fmtFileErr e ++ detail, numPages := mt.numPages, txId := mt.txId, fileSize := ba.size }

def checkPath (path : String) (pagesize : Nat) : IO FileReport := do
  let ba ← IO.FS.readBinFile path
  return checkBytes Gen.layout Gen.hashOrder ba pagesize

end Driver
