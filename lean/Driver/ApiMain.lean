import Jamm.Gen.Api
open Jamm

/-- prints the model's verdict for every row of the regenerated API table -/
def main : IO UInt32 := do
  for m in Gen.apiMethods do
    IO.println s!"API {m.owner} {m.name} {if m.forRef then "ref" else "val"} rejected={escapeRejected m} mapped={m.outMapped} ok={methodOk m}"
  for t in Gen.apiTypes do
    if t.isPublic then IO.println s!"SEND {t.name} notSend={notSend Gen.apiTypes t.name}"
  return 0
