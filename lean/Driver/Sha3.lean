/-
SHA3-256 (Keccak-f[1600]), executable only: used by the driver to validate legacy (≤ 0.10) header
records.  In proofs the legacy digest is an uninterpreted function.
-/
namespace Driver.Sha3

def rc : Array UInt64 := #[
  0x0000000000000001, 0x0000000000008082, 0x800000000000808A, 0x8000000080008000,
  0x000000000000808B, 0x0000000080000001, 0x8000000080008081, 0x8000000000008009,
  0x000000000000008A, 0x0000000000000088, 0x0000000080008009, 0x000000008000000A,
  0x000000008000808B, 0x800000000000008B, 0x8000000000008089, 0x8000000000008003,
  0x8000000000008002, 0x8000000000000080, 0x000000000000800A, 0x800000008000000A,
  0x8000000080008081, 0x8000000000008080, 0x0000000080000001, 0x8000000080008008]

def rotc : Array Nat := #[1, 3, 6, 10, 15, 21, 28, 36, 45, 55, 2, 14, 27, 41, 56, 8, 25, 43, 62, 18, 39, 61, 20, 44]
def piln : Array Nat := #[10, 7, 11, 17, 18, 3, 5, 16, 8, 21, 24, 4, 15, 23, 19, 13, 12, 2, 20, 14, 22, 9, 6, 1]

def rotl (x : UInt64) (n : Nat) : UInt64 := (x <<< (n % 64).toUInt64) ||| (x >>> ((64 - n % 64) % 64).toUInt64)

def keccakF (st : Array UInt64) : Array UInt64 := Id.run do
  let mut s := st
  for round in [0:24] do
    -- theta
    let mut bc : Array UInt64 := Array.replicate 5 0
    for i in [0:5] do
      bc := bc.set! i (s[i]! ^^^ s[i + 5]! ^^^ s[i + 10]! ^^^ s[i + 15]! ^^^ s[i + 20]!)
    for i in [0:5] do
      let t := bc[(i + 4) % 5]! ^^^ rotl bc[(i + 1) % 5]! 1
      for j in [0:5] do
        s := s.set! (j * 5 + i) (s[j * 5 + i]! ^^^ t)
    -- rho pi
    let mut t := s[1]!
    for i in [0:24] do
      let j := piln[i]!
      let b := s[j]!
      s := s.set! j (rotl t rotc[i]!)
      t := b
    -- chi
    for j in [0:5] do
      let row := (List.range 5).map (fun i => s[j * 5 + i]!)
      for i in [0:5] do
        s := s.set! (j * 5 + i) (row[i]! ^^^ ((~~~ row[(i + 1) % 5]!) &&& row[(i + 2) % 5]!))
    -- iota
    s := s.set! 0 (s[0]! ^^^ rc[round]!)
  return s

def sha3_256 (msg : List UInt8) : List UInt8 := Id.run do
  let rate := 136
  -- padding: 0x06 ... 0x80
  let padLen := rate - (msg.length % rate)
  let pad : List UInt8 := if padLen == 1 then [0x86] else [0x06] ++ List.replicate (padLen - 2) 0 ++ [0x80]
  let m := (msg ++ pad).toArray
  let mut st : Array UInt64 := Array.replicate 25 0
  for blk in [0:m.size / rate] do
    for i in [0:rate / 8] do
      let mut w : UInt64 := 0
      for b in [0:8] do
        w := w ||| ((m[blk * rate + i * 8 + b]!).toUInt64 <<< (8 * b).toUInt64)
      st := st.set! i (st[i]! ^^^ w)
    st := keccakF st
  let mut out : List UInt8 := []
  for i in [0:4] do
    for b in [0:8] do
      out := out ++ [((st[i]! >>> (8 * b).toUInt64) &&& 0xff).toUInt8]
  return out

end Driver.Sha3
