/-
Driver glue for the schedule stream (C04, C09): checks the observations of real threads run under a
deterministic schedule against the specification.
  C04: every reader's two dumps are equal and equal the committed state after c commits for some c
       not smaller than the number of commits that had returned before the reader began;
  C09: no two writers overlapped, every commit succeeded, the final state is the state after all
       commits (no lost update), nothing deadlocked.
-/
import Driver.Hist
open Jamm Jamm.Spec

namespace Driver

structure ConcDefs where
  init : List (Bytes × Val) := []
  commits : List (Nat × Bytes × Val) := []   -- iso: what commit i writes

structure ConcRun where
  header : String := ""
  program : String := ""
  ncommits : Nat := 0
  nwriters : Nat := 0
  nreaders : Nat := 0
  wcommits : List (Nat × Nat × Nat × String) := []   -- thread, round, global order, outcome
  robs : List (String × Nat × String × String) := []  -- id, seen, d1, d2
  overlap : Nat := 0
  final : String := ""
  deadlock : Option String := none
  tpanics : List String := []

def field (s key : String) : String :=
  match (s.splitOn " ").find? (·.startsWith (key ++ "=")) with
  | some kv => (kv.drop (key.length + 1)).toString
  | none => ""

def be8 (n : Nat) : Bytes := (List.range 8).map (fun i => ((n / 256 ^ (7 - i)) % 256).toUInt8)

/-- committed state after the first `c` commits -/
def concState (d : ConcDefs) (r : ConcRun) (c : Nat) : DBS :=
  let db0 : DBS := (Spec.bucketGetter Spec.empty [] "b".toUTF8.toList true true).2
  let db1 := d.init.foldl (fun db kv => (Spec.put db ["b".toUTF8.toList] kv.1 kv.2).2) db0
  if r.program == "iso" then
    (d.commits.filter (fun e => e.1 ≤ c)).foldl (fun db e => (Spec.put db ["b".toUTF8.toList] e.2.1 e.2.2).2) db1
  else
    -- read-modify-write increments: the n-th commit sets the counter to n (and, for `grow`, adds its big value)
    let order := (r.wcommits.filter (fun w => w.2.2.1 ≤ c)).mergeSort (fun a b => a.2.2.1 ≤ b.2.2.1)
    order.foldl (fun db w =>
      let db := (Spec.put db ["b".toUTF8.toList] "counter".toUTF8.toList (vtok (be8 w.2.2.1))).2
      if r.program == "grow" then
        (Spec.put db ["b".toUTF8.toList] s!"big-{w.1}-{w.2.1}".toUTF8.toList s!"z{3 * 1024 * 1024}:07").2
      else db) db1

def checkRun (d : ConcDefs) (r : ConcRun) : Option String :=
  match r.deadlock with
  | some b => some s!"deadlock: blocked threads {b}"
  | none =>
  if !r.tpanics.isEmpty then some s!"a thread panicked: {r.tpanics}" else
  if r.overlap != 0 then some s!"two write transactions were open at the same time ({r.overlap} times)" else
  match r.wcommits.find? (fun w => w.2.2.2 != "ok") with
  | some w => some s!"commit of thread {w.1} round {w.2.1} failed: {w.2.2.2}"
  | none =>
  let total := r.wcommits.length
  if total != r.ncommits * r.nwriters then some s!"{total} commits completed, expected {r.ncommits * r.nwriters}" else
  -- every reader reports two observations (two read transactions, each dumped twice)
  if r.robs.length != 2 * r.nreaders then some s!"{r.robs.length} reader observations, expected {2 * r.nreaders}" else
  let dumps := (List.range (total + 1)).map (fun c => dumpBucket (concState d r c) [] true)
  if r.final != dumps.getD total "" then some s!"final state is not the state after all {total} commits (lost update?): {(r.final.take 200).toString}" else
  match r.robs.find? (fun o => o.2.2.1 != o.2.2.2) with
  | some o => some s!"reader {o.1} saw its snapshot change while open"
  | none =>
  match r.robs.find? (fun o => !((List.range (total + 1)).any (fun c => o.2.1 ≤ c && dumps.getD c "" == o.2.2.1))) with
  | some o =>
    match (List.range (total + 1)).find? (fun c => dumps.getD c "" == o.2.2.1) with
    | some c => some s!"reader {o.1} began after {o.2.1} commits had returned but observed the state after only {c}"
    | none => some s!"reader {o.1} observed a state that was never committed: {(o.2.2.1.take 160).toString}"
  | none => none

end Driver
