/-
Line-protocol glue for the history stream: parses the harness transcript, runs the specification
(`Jamm.Spec`) next to it and reports the first line on which the implementation's outcome is not
one the specification allows.  Glue only: nothing here is the subject of a theorem.
-/
import Jamm.Model.Spec
open Jamm Jamm.Spec

namespace Driver

def hexDigit (c : Char) : UInt8 :=
  if '0' ≤ c ∧ c ≤ '9' then (c.toNat - '0'.toNat).toUInt8
  else if 'a' ≤ c ∧ c ≤ 'f' then (c.toNat - 'a'.toNat + 10).toUInt8
  else 0

def unhex (s : String) : Bytes :=
  if s == "-" then [] else
  let rec go : List Char → List UInt8
    | a :: b :: rest => (hexDigit a * 16 + hexDigit b) :: go rest
    | _ => []
  go s.toList

def hexNibble (n : UInt8) : Char :=
  if n < 10 then Char.ofNat ('0'.toNat + n.toNat) else Char.ofNat ('a'.toNat + n.toNat - 10)

def hex (b : Bytes) : String :=
  if b.isEmpty then "-" else
  String.ofList (b.foldr (fun x acc => hexNibble (x / 16) :: hexNibble (x % 16) :: acc) [])

/-- values are opaque to the specification: the driver keeps them as canonical tokens (hex, or
`z<len>:<hh>` for long uniform values) -/
abbrev Val := String

def vtok (b : Bytes) : String :=
  match b with
  | [] => "-"
  | x :: _ => if b.length ≥ 64 && b.all (· == x) then s!"z{b.length}:{String.ofList [hexNibble (x / 16), hexNibble (x % 16)]}" else hex b

/-- canonical form of a value token read from a history line -/
def canonVal (tok : String) : Val :=
  if tok.startsWith "z" then
    -- `z<len>:<hh>` is canonical only for len ≥ 64
    match (tok.drop 1).toString.splitOn ":" with
    | [n, b] => if n.toNat! < 64 then vtok (List.replicate n.toNat! ((unhex b).headD 0)) else tok
    | _ => tok
  else vtok (unhex tok)

abbrev DBS := Spec.DB Bytes Val
abbrev ItemS := Bytes × Spec.Item Val

def fmtItem : ItemS → String
  | (k, .val v) => s!"K:{hex k}:{v}"
  | (k, .bkt) => s!"B:{hex k}"

def fmtList (l : List String) : String := "[" ++ ",".intercalate l ++ "]"

def fmtErr : Spec.Err → String
  | .bucketExists => "err:BucketExists"
  | .bucketMissing => "err:BucketMissing"
  | .keyValueMissing => "err:KeyValueMissing"
  | .incompatibleValue => "err:IncompatibleValue"
  | .readOnlyTx => "err:ReadOnlyTx"

structure Handle where
  id : Nat
  tx : Nat
  path : List Bytes
  alive : Bool
  /-- a handle to a *descendant* of a deleted bucket: using it is outside the specification -/
  orphan : Bool := false

structure TxS where
  id : Nat
  writable : Bool
  db : DBS

structure St where
  committed : DBS := Spec.empty
  pagesize : Nat := 1024
  /-- hash of the file's bytes as last reported, valid until the next successful commit -/
  lastHash : Option String := none
  txs : List TxS := []
  handles : List Handle := []

def St.tx? (s : St) (t : Nat) : Option TxS := s.txs.find? (·.id == t)
def St.setTx (s : St) (tx : TxS) : St :=
  { s with txs := s.txs.map (fun x => if x.id == tx.id then tx else x) }
def St.dropTx (s : St) (t : Nat) : St :=
  { s with txs := s.txs.filter (·.id != t), handles := s.handles.filter (·.tx != t) }

/-- handle 0 is the transaction's root bucket -/
def St.handle? (s : St) (t h : Nat) : Option Handle :=
  if h == 0 then some { id := 0, tx := t, path := [], alive := true }
  else s.handles.find? (fun x => x.id == h && x.tx == t)

partial def dumpBucket (db : DBS) (p : List Bytes) (root : Bool) : String :=
  match Spec.getBucket db p with
  | none => "{?}"
  | some b =>
    let n := if root then "-" else toString b.nextInt
    let items := b.items.map (fun it =>
      match it with
      | (k, .val _) => fmtItem it
      | (k, .bkt) => fmtItem it ++ dumpBucket db (p ++ [k]) false)
    "{n=" ++ n ++ ";" ++ ",".intercalate items ++ "}"

def parseBound (s : String) : Spec.Bound Bytes :=
  if s == "u" then .unbounded
  else if s.startsWith "i:" then .incl (unhex (s.drop 2).toString)
  else .excl (unhex (s.drop 2).toString)

/-- result of interpreting one line: new state and the outcomes the specification allows -/
structure Step where
  st : St
  allowed : List String

def deadOr (h : Handle) (k : Unit → List String) : List String :=
  if h.orphan then [] else if h.alive then k () else ["panic:deleted"]

def stepOp (s : St) (f : List String) : Step :=
  let num (i : Nat) : Nat := (f.getD i "0").toNat!
  let str (i : Nat) : String := f.getD i ""
  match f.head? with
  | some "cfg" =>
    let ps := (f.filterMap (fun kv => if kv.startsWith "pagesize=" then some (kv.drop 9).toString.toNat! else none)).headD s.pagesize
    ⟨{ s with pagesize := ps }, ["ok"]⟩
  | some "open" => ⟨{ s with txs := [], handles := [] }, ["ok"]⟩
  | some "reopen" => ⟨{ s with txs := [], handles := [] }, ["ok"]⟩
  | some "close" => ⟨{ s with txs := [], handles := [] }, ["ok"]⟩
  | some "begin" =>
    let tx : TxS := { id := num 1, writable := str 2 == "w", db := s.committed }
    ⟨{ s with txs := tx :: s.txs }, ["ok"]⟩
  | some "commit" =>
    match s.tx? (num 1) with
    | none => ⟨s, ["?unknown-tx"]⟩
    | some tx =>
      if tx.writable then ⟨{ (s.dropTx tx.id) with committed := tx.db, lastHash := none }, ["ok", "err:Io"]⟩
      else ⟨s.dropTx tx.id, ["err:ReadOnlyTx"]⟩
  | some "drop" => ⟨s.dropTx (num 1), ["ok"]⟩
  | some "dbcheck" => ⟨s, ["ok"]⟩
  | some "file" => ⟨s, []⟩
  | some "fault" => ⟨s, ["ok"]⟩
  | some "limit" => ⟨s, ["ok"]⟩
  | some "fired" => ⟨s, []⟩
  | some "mark" => ⟨s, ["ok"]⟩
  | some "snap" => ⟨s, ["ok"]⟩
  | some "usefile" => ⟨{ s with txs := [], handles := [] }, ["ok"]⟩
  | some "pretrees" => ⟨s, []⟩
  | some "notes" => ⟨s, []⟩
  | some "flstate" => ⟨s, []⟩
  | some "readers" => ⟨s, []⟩
  | some "tree" => ⟨s, []⟩
  | some "fhash" =>
    -- C06: between two commits nothing may change the file's bytes
    match s.lastHash with
    | some h => ⟨s, [h]⟩
    | none => ⟨s, []⟩
  | some "dump" =>
    match s.tx? (num 1) with
    | none => ⟨s, ["?unknown-tx"]⟩
    | some tx => ⟨s, [dumpBucket tx.db [] true]⟩
  | some "tscan" =>
    match s.tx? (num 1) with
    | none => ⟨s, ["?unknown-tx"]⟩
    | some tx => ⟨s, [fmtList ((Spec.bucketsOf (Spec.scan tx.db [])).map (fun k => "B:" ++ hex k))]⟩
  | some op =>
    -- all remaining ops are `<op> T ...` on a handle
    match s.tx? (num 1) with
    | none => ⟨s, ["?unknown-tx"]⟩
    | some tx =>
    if op == "getb" || op == "mkb" || op == "gocb" then
      match s.handle? tx.id (num 3) with
      | none => ⟨s, ["?unknown-handle"]⟩
      | some hp =>
        let name := unhex (str 4)
        let create := op != "getb"
        if create && !tx.writable then ⟨s, ["err:ReadOnlyTx"]⟩
        else if hp.orphan then ⟨s, []⟩
        else if !hp.alive then ⟨s, ["panic:deleted"]⟩
        else
          let (r, db') := Spec.bucketGetter tx.db hp.path name create (op == "mkb")
          match r with
          | .error e => ⟨s, [fmtErr e]⟩
          | .ok () =>
            let h : Handle := { id := num 2, tx := tx.id, path := hp.path ++ [name], alive := true }
            let s1 := s.setTx { tx with db := db' }
            ⟨{ s1 with handles := h :: s1.handles.filter (fun x => !(x.id == h.id && x.tx == h.tx)) }, ["ok"]⟩
    else if op == "iterb" then
      -- handles yielded by the buckets() iterator of handle (num 3), bound to (num 2), (num 2)+1, ...
      match s.handle? tx.id (num 3) with
      | none => ⟨s, ["?unknown-handle"]⟩
      | some hp =>
        if hp.orphan then ⟨s, []⟩
        else if !hp.alive then ⟨s, ["panic:deleted"]⟩
        else
          let names := Spec.bucketsOf (Spec.scan tx.db hp.path)
          let hs : List Handle := (names.zipIdx).map (fun (nm, i) => { id := num 2 + i, tx := tx.id, path := hp.path ++ [nm], alive := true })
          let others := s.handles.filter (fun x => !(x.tx == tx.id && hs.any (fun h => h.id == x.id)))
          ⟨{ s with handles := hs ++ others }, [fmtList (names.map (fun k => "B:" ++ hex k))]⟩
    else if op == "delb" then
      match s.handle? tx.id (num 2) with
      | none => ⟨s, ["?unknown-handle"]⟩
      | some hp =>
        let name := unhex (str 3)
        if !tx.writable then ⟨s, ["err:ReadOnlyTx"]⟩
        else if hp.orphan then ⟨s, []⟩
        else if !hp.alive then ⟨s, ["panic:deleted"]⟩
        else
          let (r, db') := Spec.deleteBucket tx.db hp.path name
          match r with
          | .error e => ⟨s, [fmtErr e]⟩
          | .ok () =>
            let pre := hp.path ++ [name]
            let s1 := s.setTx { tx with db := db' }
            ⟨{ s1 with handles := s1.handles.map (fun x =>
                if x.tx == tx.id && x.alive && !x.orphan && pre.isPrefixOf x.path then
                  (if x.path == pre then { x with alive := false } else { x with orphan := true })
                else x) }, ["ok"]⟩
    else
      match s.handle? tx.id (num 2) with
      | none => ⟨s, ["?unknown-handle"]⟩
      | some h =>
        let items := Spec.scan tx.db h.path
        match op with
        | "put" =>
          if !tx.writable then ⟨s, ["err:ReadOnlyTx"]⟩
          else if h.orphan then ⟨s, []⟩
          else if !h.alive then ⟨s, ["panic:deleted"]⟩
          else
            let (r, db') := Spec.put tx.db h.path (unhex (str 3)) (canonVal (str 4))
            match r with
            | .error e => ⟨s, [fmtErr e]⟩
            | .ok none => ⟨s.setTx { tx with db := db' }, ["ok:none"]⟩
            | .ok (some (k, v)) => ⟨s.setTx { tx with db := db' }, [s!"ok:K:{hex k}:{v}"]⟩
        | "del" =>
          if !tx.writable then ⟨s, ["err:ReadOnlyTx"]⟩
          else if h.orphan then ⟨s, []⟩
          else if !h.alive then ⟨s, ["panic:deleted"]⟩
          else
            let (r, db') := Spec.delete tx.db h.path (unhex (str 3))
            match r with
            | .error e => ⟨s, [fmtErr e]⟩
            | .ok (k, v) => ⟨s.setTx { tx with db := db' }, [s!"ok:K:{hex k}:{v}"]⟩
        | "get" =>
          ⟨s, deadOr h fun _ =>
            match Spec.get tx.db h.path (unhex (str 3)) with
            | none => ["none"]
            | some it => [fmtItem it]⟩
        | "getkv" =>
          ⟨s, deadOr h fun _ =>
            match Spec.get tx.db h.path (unhex (str 3)) with
            | some (k, .val v) => [fmtItem (k, .val v)]
            | _ => ["none"]⟩
        | "nextint" => ⟨s, deadOr h fun _ => [toString (Spec.nextInt tx.db h.path)]⟩
        | "scan" => ⟨s, deadOr h fun _ => [fmtList (items.map fmtItem) ++ ";x=none,none"]⟩
        | "buckets" => ⟨s, deadOr h fun _ => [fmtList ((Spec.bucketsOf items).map (fun k => "B:" ++ hex k))]⟩
        | "kvpairs" => ⟨s, deadOr h fun _ => [fmtList ((Spec.kvPairsOf items).map (fun kv => fmtItem (kv.1, .val kv.2)))]⟩
        | "range" =>
          ⟨s, deadOr h fun _ =>
            [fmtList ((Spec.range items (parseBound (str 3)) (parseBound (str 4))).map fmtItem) ++ ";x=none"]⟩
        | "seek" =>
          ⟨s, deadOr h fun _ =>
            let k := unhex (str 3)
            let ex := (Spec.lookup k items).isSome
            let fk := Spec.fromKey items k
            let mk (out : List ItemS) : String :=
              let cur := match out.head? with | none => "none" | some it => fmtItem it
              s!"exists={if ex then 1 else 0};cur={cur};out={fmtList (out.map fmtItem)};x=none"
            match Spec.predOf items k with
            | some p => if ex then [mk fk] else [mk fk, mk (p :: fk)]
            | none => [mk fk]⟩
        | _ => ⟨s, ["?unknown-op"]⟩
  | none => ⟨s, []⟩

end Driver
