/-
Driver glue for Layer A / P(readers): runs the release-protocol model `Jamm.Sys` next to a history.
The writer's page-level behaviour (what it freed, what it allocated) is *extracted* from consecutive
real files; the model applies its own release rule and must reproduce the real in-memory free list
(read through the hook accessor) exactly, the allocated pages must have been free (or fresh) in the
model, and the executable invariant `Sys.invB` is evaluated on every state reached.
-/
import Jamm.Model.FreelistInv
open Jamm

namespace Driver

structure FileSum where
  reach : List Nat      -- tree pages with overflow runs + the free-list run
  persisted : List Nat  -- the persisted free list
  numPages : Nat
  txId : Nat

structure ProtoSt where
  sys : Sys
  readerTx : List Nat := []
  commitsSince : Nat := 0
  checked : Nat := 0
  maxNonFree : Nat := 0
  maxReq : Nat := 0

def parseNatList (s : String) : List Nat :=
  let inner := ((s.dropWhile (· == '[')).toString.takeWhile (· != ']')).toString
  if inner.isEmpty then [] else (inner.splitOn ",").map (·.toNat!)

/-- `free=[..];pending=t:[..];t:[..]`.  Pending lists are canonicalised as sets: one transaction can
free a page twice (nested bucket, then its ancestor); `release` inserts into a set and `pages()` removes
duplicates, so the multiplicity is unobservable. -/
def parseFlState (s : String) : FL :=
  match s.splitOn ";pending=" with
  | [f, p] =>
    let free := parseNatList ((f.drop 5).toString)
    let pend := if p.isEmpty then [] else (p.splitOn ";").filterMap (fun e =>
      match e.splitOn ":" with
      | [t, l] => some (t.toNat!, (parseNatList l).eraseDups)
      | _ => none)
    { free := free, pending := pend }
  | _ => {}

def listDiff (a b : List Nat) : List Nat := a.filter (fun p => !b.contains p)

def sortNat (l : List Nat) : List Nat := l.mergeSort (· ≤ ·)

/-- one committed write transaction observed through (file, in-memory free list).
returns the new protocol state or a description of the disagreement -/
def protoCommit (ps : ProtoSt) (fs : FileSum) (impl : FL) : Except String ProtoSt :=
  let s := ps.sys
  let T := s.cur.txId + 1
  if fs.txId != T then .error s!"transaction id {fs.txId}, model expects {T}" else
  let t := s.beginWriter
  let freed := listDiff s.cur.reach fs.reach
  let alloc := listDiff fs.reach s.cur.reach
  let implT := (impl.pending.find? (fun e => e.1 == T)).map (·.2) |>.getD []
  let implKept := impl.pending.filter (fun e => e.1 != T)
  let burned := listDiff implT freed
  let okSource (p : Nat) : Bool := t.fl.free.contains p || (s.numPages ≤ p && p < fs.numPages)
  match alloc.find? (fun p => !okSource p) with
  | some p => .error s!"page {p} was written by transaction {T} but is neither free (after the model's release) nor new: model free={t.fl.free.take 12} pending={t.fl.pending.take 4} readers={s.readers.map (·.txId)}"
  | none =>
  match burned.find? (fun p => !okSource p) with
  | some p => .error s!"page {p} freed by transaction {T} was neither reachable before nor allocated from free/new pages"
  | none =>
  if !(freed.all implT.contains) then .error s!"pages {listDiff freed implT} left the snapshot but are not pending under {T}" else
  let expFree := listDiff t.fl.free (alloc ++ burned)
  if sortNat impl.free != sortNat expFree then
    .error s!"in-memory free set differs: impl-only={(listDiff impl.free expFree).take 8} model-only={(listDiff expFree impl.free).take 8}"
  else if implKept != t.fl.pending then
    .error s!"pending lists differ: impl={implKept.take 4} model={t.fl.pending.take 4}"
  else if sortNat (impl.free ++ impl.pendingPages).eraseDups != sortNat fs.persisted then
    .error s!"persisted free list is not free ∪ pending"
  else
    let sys' : Sys := { cur := { txId := T, reach := fs.reach }, shared := impl, readers := s.readers, numPages := fs.numPages }
    if !sys'.invB then .error s!"accounting invariant fails after transaction {T}" else
    let runs := fs.numPages - s.numPages
    .ok { ps with sys := sys', commitsSince := 0, checked := ps.checked + 1,
                  maxNonFree := max ps.maxNonFree (fs.numPages - 2 - impl.free.length),
                  maxReq := max ps.maxReq runs }

def protoInit (fs : FileSum) (impl : FL) : ProtoSt :=
  { sys := { cur := { txId := fs.txId, reach := fs.reach }, shared := impl, readers := [], numPages := fs.numPages } }

end Driver
