/-
Driver glue for Layer A / P(readers): runs the release-protocol model `Jamm.Sys` next to a history.
The writer's page-level behaviour (what it freed, what it allocated) is *extracted* from consecutive
real files; the model applies its own release rule and must reproduce the real in-memory free list
(read through the hook accessor) exactly, the allocated pages must have been free (or fresh) in the
model, and the executable invariant `Sys.invB` is evaluated on every state reached.
-/
import Jamm.Model.FreelistInv
open Jamm

namespace Driver

structure FileSum where
  reach : List Nat      -- tree pages with overflow runs + the free-list run
  persisted : List Nat  -- the persisted free list
  numPages : Nat
  txId : Nat
  runs : List (Nat × Nat) := []   -- (first page, length) of every node run reached and of the free-list run

structure ProtoSt where
  sys : Sys
  readerTx : List Nat := []
  commitsSince : Nat := 0
  checked : Nat := 0
  maxNonFree : Nat := 0
  maxReq : Nat := 0
  wBegin : Option TxFL := none   -- the open writer's private list as decided at ITS begin (release bound from the readers registered then)
  numPages0 : Nat := 0
  writerTx : Option Nat := none
  extensions : Nat := 0          -- runs placed beyond the old page mark (each checked: no free run would have fitted)
  placed : Nat := 0              -- commits whose placement was reproduced exactly by the model's first fit
  placeUndecided : Nat := 0      -- commits where the order search ran out of fuel or pages were allocated and freed again
  burnedCommits : Nat := 0
  callsReplayed : Nat := 0
  reused : Nat := 0              -- runs placed on released pages

def parseNatList (s : String) : List Nat :=
  let inner := ((s.dropWhile (· == '[')).toString.takeWhile (· != ']')).toString
  if inner.isEmpty then [] else (inner.splitOn ",").map (·.toNat!)

/-- `free=[..];pending=t:[..];t:[..]`.  Pending lists are canonicalised as sets: one transaction can
free a page twice (nested bucket, then its ancestor); `release` inserts into a set and `pages()` removes
duplicates, so the multiplicity is unobservable. -/
def parseFlState (s : String) : FL :=
  match s.splitOn ";pending=" with
  | [f, p] =>
    let free := parseNatList ((f.drop 5).toString)
    let pend := if p.isEmpty then [] else (p.splitOn ";").filterMap (fun e =>
      match e.splitOn ":" with
      | [t, l] => some (t.toNat!, (parseNatList l).eraseDups)
      | _ => none)
    { free := free, pending := pend }
  | _ => {}

/-- the `al,n=..,page=..` notes of one commit: every call of `TxFreelist::allocate`, in call order -/
def parseAllocs (s : String) : List (Nat × Nat) :=
  if s == "-" then [] else
  (s.splitOn "|").filterMap (fun n =>
    let f := n.splitOn ","
    let get (k : String) : Nat := ((f.find? (·.startsWith (k ++ "="))).map (fun x => (x.drop (k.length + 1)).toString.toNat!)).getD 0
    match f with
    | "al" :: _ => some (get "n", get "page")
    | _ => none)

/-- replay every allocation call of the commit on the model's private list: first fit, else extend.
returns the first call the model answers differently, or the final model state -/
def replayAllocs (t : TxFL) : List (Nat × Nat) → Except String TxFL
  | [] => .ok t
  | (n, page) :: rest =>
    let r := t.allocate n
    if r.1 != page then .error s!"allocate({n}) returned page {page}; the model's first fit gives {r.1} (free={t.fl.free.take 16} mark={t.numPages})"
    else replayAllocs r.2 rest

def listDiff (a b : List Nat) : List Nat := a.filter (fun p => !b.contains p)

def sortNat (l : List Nat) : List Nat := l.mergeSort (· ≤ ·)

/- order search: is there an order of the observed runs in which the model's `TxFL.allocate` (first fit,
else extend) places every one of them exactly where the real commit did?  The real order is such an
order whenever the real allocator is the model's.  `none` = out of fuel (never an alarm). -/
mutual
partial def placeSearch (fuel : Nat) (t : TxFL) (rs : List (Nat × Nat)) : Nat × Option Bool :=
  if rs.isEmpty then (fuel, some true) else
  if fuel == 0 then (0, none) else
  placeTry fuel t rs ((rs.filter (fun r => (t.allocate r.2).1 == r.1)).eraseDups)
partial def placeTry (fuel : Nat) (t : TxFL) (rs : List (Nat × Nat)) (cs : List (Nat × Nat)) : Nat × Option Bool :=
  match cs with
  | [] => (fuel, some false)
  | c :: rest =>
    if fuel == 0 then (0, none) else
    match placeSearch (fuel - 1) (t.allocate c.2).2 (rs.erase c) with
    | (f, some true) => (f, some true)
    | (_, none) => (0, none)
    | (f, some false) => placeTry f t rs rest
end

/-- one committed write transaction observed through (file, in-memory free list).
returns the new protocol state or a description of the disagreement -/
def protoCommit (ps : ProtoSt) (fs : FileSum) (impl : FL) (allocs : Option (List (Nat × Nat)) := none) : Except String ProtoSt :=
  let s := ps.sys
  let T := s.cur.txId + 1
  if fs.txId != T then .error s!"transaction id {fs.txId}, model expects {T}" else
  -- the release bound is decided when the writer BEGINS (readers registered then), not when it commits
  let t := ps.wBegin.getD s.beginWriter
  let freed := listDiff s.cur.reach fs.reach
  let alloc := listDiff fs.reach s.cur.reach
  let implT := (impl.pending.find? (fun e => e.1 == T)).map (·.2) |>.getD []
  let implKept := impl.pending.filter (fun e => e.1 != T)
  let burned := listDiff implT freed
  let okSource (p : Nat) : Bool := t.fl.free.contains p || (s.numPages ≤ p && p < fs.numPages)
  match alloc.find? (fun p => !okSource p) with
  | some p => .error s!"page {p} was written by transaction {T} but is neither free (after the model's release) nor new: model free={t.fl.free.take 12} pending={t.fl.pending.take 4} readers={s.readers.map (·.txId)}"
  | none =>
  match burned.find? (fun p => !okSource p) with
  | some p => .error s!"page {p} freed by transaction {T} was neither reachable before nor allocated from free/new pages"
  | none =>
  if !(freed.all implT.contains) then .error s!"pages {listDiff freed implT} left the snapshot but are not pending under {T}" else
  let expFree := listDiff t.fl.free (alloc ++ burned)
  if sortNat impl.free != sortNat expFree then
    .error s!"in-memory free set differs: impl-only={(listDiff impl.free expFree).take 8} model-only={(listDiff expFree impl.free).take 8}"
  else if implKept != t.fl.pending then
    .error s!"pending lists differ: impl={implKept.take 4} model={t.fl.pending.take 4}"
  else if sortNat (impl.free ++ impl.pendingPages).eraseDups != sortNat fs.persisted then
    .error s!"persisted free list is not free ∪ pending"
  else
    let sys' : Sys := { cur := { txId := T, reach := fs.reach }, shared := impl, readers := s.readers, numPages := fs.numPages }
    if !sys'.invB then .error s!"accounting invariant fails after transaction {T}" else
    -- C10: the allocator itself.  The runs this commit wrote, with their lengths:
    let newRuns := fs.runs.filter (fun r => !s.cur.reach.contains r.1)
    if sortNat (expand newRuns) != sortNat alloc then
      .error s!"the runs written by transaction {T} ({newRuns.take 6}) do not partition its new pages ({(sortNat alloc).take 12})"
    else
    -- (a) a run placed beyond the old page mark extends the file: first fit does that only when no run
    -- of that length is free.  The transaction's private free set only shrinks while it runs, so a run
    -- that is still free afterwards was free when the request was made.
    let ext := newRuns.filter (fun r => s.numPages ≤ r.1)
    match ext.find? (fun r => hasRun r.2 impl.free) with
    | some r => .error s!"transaction {T} extended the file for a run of {r.2} page(s) at {r.1} although {r.2} consecutive free pages were available (free={impl.free.take 16})"
    | none =>
    -- (b) exact placement: some order of the requests makes the model's first fit put every run where
    -- the real commit put it (only when every allocation is visible in the file: nothing burned)
    -- (b0) with the allocation notes of the hook: every single call, in call order, against the model
    let callDiff : Option String := match allocs with
      | none => none
      | some calls =>
        match replayAllocs { t with numPages := s.numPages } calls with
        | .error e => some e
        | .ok t' =>
          if t'.numPages != fs.numPages then some s!"after the {calls.length} allocation calls the model's page mark is {t'.numPages}, the header says {fs.numPages}"
          else if sortNat (expand (calls.map (fun c => (c.2, c.1)))) != sortNat (alloc ++ burned) then
            some s!"the allocation calls {calls.take 8} do not cover exactly the pages the transaction wrote or burned"
          else if sortNat t'.fl.free != sortNat impl.free then some s!"after replaying the allocation calls the model's free set differs from the real one"
          else none
    if let some e := callDiff then .error e else
    let (placed, undec, bad) :=
      if allocs.isSome then (1, 0, false) else
      if !burned.isEmpty then (0, 1, false) else
      match (placeSearch 4000 { t with numPages := s.numPages } newRuns).2 with
      | some true => (1, 0, false)
      | some false => (0, 0, true)
      | none => (0, 1, false)
    if bad then
      .error s!"no order of the requests {newRuns.map (·.2)} makes first fit place the runs at {newRuns.map (·.1)} (model free={t.fl.free.take 16} mark={s.numPages})"
    else
    let K := (newRuns.map (·.2)).foldl max 0
    .ok { ps with sys := sys', commitsSince := 0, checked := ps.checked + 1, wBegin := none, writerTx := none,
                  maxNonFree := max ps.maxNonFree (fs.numPages - 2 - impl.free.length),
                  maxReq := max ps.maxReq K,
                  extensions := ps.extensions + ext.length, reused := ps.reused + (newRuns.length - ext.length),
                  placed := ps.placed + placed, placeUndecided := ps.placeUndecided + undec,
                  burnedCommits := ps.burnedCommits + (if burned.isEmpty then 0 else 1),
                  callsReplayed := ps.callsReplayed + (allocs.map (·.length)).getD 0 }

def protoInit (fs : FileSum) (impl : FL) : ProtoSt :=
  { sys := { cur := { txId := fs.txId, reach := fs.reach }, shared := impl, readers := [], numPages := fs.numPages },
    numPages0 := fs.numPages }

/-- the history-level plateau (corollary of `C10.extension_implies_small` at every extension): the page
mark never exceeds `max numPages₀ (K·(n+2)+1)`, `n` the largest number of non-free pages seen and `K` the
longest run requested -/
def ProtoSt.plateauOk (p : ProtoSt) : Bool :=
  p.sys.numPages ≤ max p.numPages0 (p.maxReq * (p.maxNonFree + 2) + 1)

end Driver
