/-
Driver glue for the process stream (C13): checks the observations of worker processes.
 (a) no two workers are inside the database at the same time (intervals open-returned .. about-to-close);
 (b) a worker sees the marker of every worker that had closed before it got in;
 (c) no worker fails to open or to work.
-/
import Driver.Hist
namespace Driver

structure WorkerObs where
  id : String
  openCalled : Nat := 0
  openReturned : Option Nat := none
  aboutToClose : Option Nat := none
  seen : List String := []
  failed : Option String := none
  committed : Bool := false

def parseObs (lines : List String) : List WorkerObs :=
  lines.foldl (fun acc l =>
    let f := l.splitOn " "
    let id := f.getD 0 ""
    let upd (g : WorkerObs → WorkerObs) : List WorkerObs :=
      if acc.any (·.id == id) then acc.map (fun w => if w.id == id then g w else w) else acc ++ [g { id := id }]
    match f.getD 1 "" with
    | "open-called" => upd (fun w => { w with openCalled := (f.getD 2 "0").toNat! })
    | "open-returned" => upd (fun w => { w with openReturned := some (f.getD 2 "0").toNat! })
    | "open-failed" => upd (fun w => { w with failed := some ("open:" ++ f.getD 3 "") })
    | "work-failed" => upd (fun w => { w with failed := some ("work:" ++ f.getD 3 "") })
    | "worked" =>
      let seenS := ((f.find? (·.startsWith "seen=[")).getD "seen=[]")
      let inner := ((seenS.drop 6).toString.takeWhile (· != ']')).toString
      let ok := f.contains "commit=true"
      upd (fun w => { w with seen := if inner.isEmpty then [] else inner.splitOn ",", committed := ok,
                              failed := if ok then w.failed else some "commit-failed" })
    | "about-to-close" => upd (fun w => { w with aboutToClose := some (f.getD 2 "0").toNat! })
    | _ => acc) []

/-- returns the list of problems: (class, text) -/
def checkProc (ws : List WorkerObs) : List (String × String) :=
  let fails := ws.filterMap (fun w => w.failed.map (fun e => ("failed", s!"worker {w.id} {e}")))
  let inside := ws.filterMap (fun w => match w.openReturned, w.aboutToClose with
    | some a, some b => some (w.id, a, b) | _, _ => none)
  let overlaps := inside.flatMap (fun x => inside.filterMap (fun y =>
    if x.1 < y.1 && !(x.2.2 ≤ y.2.1 || y.2.2 ≤ x.2.1) then some ("overlap", s!"workers {x.1} and {y.1} were inside the database at the same time") else none))
  let missing := ws.flatMap (fun w => match w.openReturned with
    | none => []
    | some a => inside.filterMap (fun y =>
        if y.1 != w.id && y.2.2 ≤ a && !w.seen.contains y.1 && (ws.find? (·.id == y.1)).any (·.committed) then
          some ("stale", s!"worker {w.id} did not see the commit of {y.1}, which had closed before it got in") else none))
  fails ++ overlaps ++ missing

end Driver
