/-
Driver glue for Layer C: parses the pre-commit overlay trees and the rebalance notes reported by the
real run, replays `rebalance`, applies `spill`, and compares the shape with the tree decoded from the
committed file.
-/
import Driver.File
import Jamm.Model.Commit
import Jamm.Model.CommitPages
import Jamm.Model.Overlay
import Jamm.Gen.Params
open Jamm

namespace Driver

abbrev CTree := Tree Bytes Ent

partial def parseNat (cs : List Char) (acc : Nat := 0) : Nat × List Char :=
  match cs with
  | c :: rest => if c.isDigit then parseNat rest (acc * 10 + (c.toNat - '0'.toNat)) else (acc, cs)
  | [] => (acc, [])

def takeKey (cs : List Char) : Bytes × List Char :=
  let k := cs.takeWhile (fun c => c != ':' && c != '=' && c != ',' && c != ')')
  (unhex (String.ofList k), cs.drop k.length)

mutual
partial def parseNode (cs : List Char) : Option (CTree × List Char) :=
  match cs with
  | kind :: rest =>
    let (pg, rest) := parseNat rest
    let (mat, rest) := match rest with | '*' :: r => (true, r) | r => (false, r)
    match rest with
    | '(' :: rest =>
      if kind == 'L' then
        match parseLeafItems rest [] with
        | some (es, rest) => some (.leaf (mkPid pg mat) es, rest)
        | none => none
      else
        match parseBranchItems rest [] with
        | some (ks, rest) => some (.branch (mkPid pg mat) (Forest.ofList ks), rest)
        | none => none
    | _ => none
  | [] => none
partial def parseLeafItems (cs : List Char) (acc : List (Bytes × Ent)) : Option (List (Bytes × Ent) × List Char) :=
  match cs with
  | ')' :: rest => some (acc.reverse, rest)
  | ',' :: rest => parseLeafItems rest acc
  | _ =>
    let (k, rest) := takeKey cs
    match rest with
    | ':' :: 'b' :: rest => parseLeafItems rest (({ vsize := 0, isBucket := true } : Ent) |> fun e => (k, e) :: acc)
    | ':' :: 'k' :: rest =>
      let (n, rest) := parseNat rest
      parseLeafItems rest ((k, { vsize := n, isBucket := false }) :: acc)
    | _ => none
partial def parseBranchItems (cs : List Char) (acc : List (Bytes × CTree)) : Option (List (Bytes × CTree) × List Char) :=
  match cs with
  | ')' :: rest => some (acc.reverse, rest)
  | ',' :: rest => parseBranchItems rest acc
  | _ =>
    let (k, rest) := takeKey cs
    match rest with
    | '=' :: rest =>
      match parseNode rest with
      | some (t, rest) => parseBranchItems rest ((k, t) :: acc)
      | none => none
    | _ => none
end

/-- `path|dirty|tree;path|dirty|tree;...` -/
def parsePretrees (s : String) : List (String × Bool × CTree) :=
  (s.splitOn ";").filterMap (fun b =>
    match b.splitOn "|" with
    | [p, d, t] => (parseNode t.toList).map (fun r => (p, d == "1", r.1))
    | _ => none)

inductive Note where
  | rb (page : Nat) (step : RbStep)   -- `page` identifies the bucket tree: the parent / root page
  | split (page : Nat)

def parseNotes (s : String) : List Note :=
  if s == "-" then [] else
  (s.splitOn "|").filterMap (fun n =>
    let f := n.splitOn ","
    let get (k : String) : Nat := ((f.find? (·.startsWith (k ++ "="))).map (fun x => (x.drop (k.length + 1)).toString.toNat!)).getD 0
    match f with
    | "rb" :: "merge" :: _ => some (.rb (get "parent") (.merge (get "parent") (get "index")))
    | "rb" :: "collapse" :: _ => some (.rb (get "root") .collapse)
    | "rb" :: "emptyroot" :: _ => some (.rb (get "root") .emptyRoot)
    | "sp" :: "split" :: _ => some (.split (get "node"))
    | _ => none)

mutual
partial def pagesOfT : CTree → List Nat
  | .leaf p _ => [nodePage p]
  | .branch p kids => nodePage p :: pagesOfF kids
partial def pagesOfF : Forest Bytes Ent → List Nat
  | .nil => []
  | .cons _ t rest => pagesOfT t ++ pagesOfF rest
end

mutual
def toEntT : Tree Bytes LeafVal → CTree
  | .leaf p es => .leaf p (es.map (fun e => (e.1, match e.2 with
      | .kv v => ({ vsize := v.length, isBucket := false } : Ent)
      | .bkt _ _ => { vsize := 0, isBucket := true })))
  | .branch p kids => .branch p (toEntF kids)
def toEntF : Forest Bytes LeafVal → Forest Bytes Ent
  | .nil => .nil
  | .cons k t rest => .cons k (toEntT t) (toEntF rest)
end

mutual
partial def fmtShape : CTree → String
  | .leaf _ es => "L(" ++ ",".intercalate (es.map (fun e => hex e.1 ++ (if e.2.isBucket then ":b" else s!":k{e.2.vsize}"))) ++ ")"
  | .branch _ kids => "B(" ++ ",".intercalate ((Forest.toList kids).map (fun e => hex e.1 ++ "=" ++ fmtShape e.2)) ++ ")"
end

def findView (v : BucketView) : List Bytes → Option BucketView
  | [] => some v
  | n :: rest => match v.subs.find? (fun s => s.1 == n) with
    | some s => findView s.2 rest
    | none => none

/-- length of the value a canonical value token stands for -/
def valLen (v : Val) : Nat :=
  if v == "-" then 0
  else if v.startsWith "z" then (((v.drop 1).toString.splitOn ":").headD "0").toNat!
  else v.length / 2

/-- Layer T tie: the overlay a write transaction has built over the committed tree `t0` when the bucket
holds `items`: branch entries are not edited before commit, so every item sits in the leaf the model's
`put` routes it to (the result does not depend on the order of the transaction's edits) -/
def predictOverlay (t0 : CTree) (items : List ItemS) : CTree :=
  -- `Tree.refill` = put every item into the emptied tree; `refill_eq_edits` (Proofs/OverlayLemmas.lean): this
  -- is the tree the transaction's edits produce one by one, in whatever order they came
  t0.refill (items.map (fun it => (it.1, match it.2 with
    | .val v => ({ vsize := valLen v, isBucket := false } : Ent)
    | .bkt => { vsize := 0, isBucket := true })))

/-- the model's prediction of the committed shape of one bucket -/
def predictBucket (pagesize : Nat) (pre : CTree) (notes : List Note) (touched : List Bytes := []) : CTree :=
  let pages := pagesOfT pre
  let steps := notes.filterMap (fun n => match n with
    | .rb pg st => if pages.contains pg then some st else none
    | .split _ => none)
  let L := Gen.layout
  commitTree Gen.params pagesize L.pageSize L.leafSize L.branchSize (entSize L.bmSize) steps touched pre

/-- the reported steps that concern this bucket -/
def rbStepsFor (pre : CTree) (notes : List Note) : List RbStep :=
  let pages := pagesOfT pre
  notes.filterMap (fun n => match n with
    | .rb pg st => if pages.contains pg then some st else none
    | .split _ => none)

/-- the tree between `rebalance` and `spill` (for the invariants that hold there) -/
def rebalanced (pre : CTree) (notes : List Note) (touched : List Bytes := []) : CTree :=
  (pre.rebalance (rbStepsFor pre notes)).touchAll touched

mutual
/-- a tree decoded from the file as a stored tree: every node unmaterialised at its page -/
def asStoredT : Tree Bytes LeafVal → CTree
  | .leaf p es => .leaf (mkPid p false) (es.map (fun e => (e.1, match e.2 with
      | .kv v => ({ vsize := v.length, isBucket := false } : Ent)
      | .bkt _ _ => { vsize := 0, isBucket := true })))
  | .branch p kids => .branch (mkPid p false) (asStoredF kids)
def asStoredF : Forest Bytes LeafVal → Forest Bytes Ent
  | .nil => .nil
  | .cons k t rest => .cons k (asStoredT t) (asStoredF rest)
end

/-- every page (with overflow runs, computed from the node contents) of a bucket and of the buckets below it -/
partial def viewRuns (pagesize : Nat) (v : BucketView) : List Nat :=
  treeRuns Gen.layout pagesize (entSize Gen.layout.bmSize) (asStoredT v.tree) ++ v.subs.flatMap (fun s => viewRuns pagesize s.2)

def pathStr (path : List Bytes) : String := if path.isEmpty then "-" else "/".intercalate (path.map hex)

def namesOf (ps : String) : List Bytes := if ps == "-" then [] else (ps.splitOn "/").map unhex

/-- `InnerBucket::is_dirty`: changed itself, or a bucket opened below it is -/
def effDirty (pretrees : List (String × Bool × CTree)) (path : List Bytes) : Bool :=
  pretrees.any (fun (ps, d, _) => d && (namesOf ps).take path.length == path)

/-- `InnerBucket::spill` re-puts the header of every nested bucket the transaction has opened below a
bucket it commits: the names of those buckets -/
def touchedKeys (pretrees : List (String × Bool × CTree)) (newRoot : BucketView) (path : List Bytes) : List Bytes :=
  if !effDirty pretrees path then [] else
  pretrees.filterMap (fun (ps, _, _) =>
    let names := namesOf ps
    if names.length == path.length + 1 && names.take path.length == path && (findView newRoot names).isSome
    then names.getLast? else none)

/-- Layer C → A tie: the tree pages the model says this transaction frees: for a bucket that is gone (or was
deleted and created again) all its pages and those of the buckets below it; for a bucket the transaction
changed, the pages of its overlay that the model's commit does not keep -/
partial def predictFreed (pagesize : Nat) (pretrees : List (String × Bool × CTree)) (notes : List Note)
    (newRoot : BucketView) (path : List Bytes) (old : BucketView) : List Nat :=
  let pt := pretrees.find? (fun x => x.1 == pathStr path)
  let recreated := match pt with | some (_, _, pre) => nodePage pre.pid == 0 | none => false
  if (findView newRoot path).isNone || recreated then viewRuns pagesize old
  else
    let own := match pt with
      | some (_, dirty, pre) =>
        let _ := dirty
        -- (the runs of the nodes the transaction changed are those of the stored tree it started from: a
        -- node that shrank still occupies its old run until it is rewritten)
        if effDirty pretrees path then
          commitFreed Gen.layout pagesize (entSize Gen.layout.bmSize) (asStoredT old.tree) (predictBucket pagesize pre notes (touchedKeys pretrees newRoot path))
        else []
      | none => []
    own ++ old.subs.flatMap (fun s => predictFreed pagesize pretrees notes newRoot (path ++ [s.1]) s.2)

/-- sizes (in pages) of the runs the model requests for the tree nodes it writes -/
def predictRequests (pagesize : Nat) (post : CTree) : List Nat := treeRequests Gen.layout pagesize (entSize Gen.layout.bmSize) post

end Driver
