/-
Driver glue for Layer C: parses the pre-commit overlay trees and the rebalance notes reported by the
real run, replays `rebalance`, applies `spill`, and compares the shape with the tree decoded from the
committed file.
-/
import Driver.File
import Jamm.Model.Commit
import Jamm.Gen.Params
open Jamm

namespace Driver

abbrev CTree := Tree Bytes Ent

partial def parseNat (cs : List Char) (acc : Nat := 0) : Nat × List Char :=
  match cs with
  | c :: rest => if c.isDigit then parseNat rest (acc * 10 + (c.toNat - '0'.toNat)) else (acc, cs)
  | [] => (acc, [])

def takeKey (cs : List Char) : Bytes × List Char :=
  let k := cs.takeWhile (fun c => c != ':' && c != '=' && c != ',' && c != ')')
  (unhex (String.ofList k), cs.drop k.length)

mutual
partial def parseNode (cs : List Char) : Option (CTree × List Char) :=
  match cs with
  | kind :: rest =>
    let (pg, rest) := parseNat rest
    let (mat, rest) := match rest with | '*' :: r => (true, r) | r => (false, r)
    match rest with
    | '(' :: rest =>
      if kind == 'L' then
        match parseLeafItems rest [] with
        | some (es, rest) => some (.leaf (mkPid pg mat) es, rest)
        | none => none
      else
        match parseBranchItems rest [] with
        | some (ks, rest) => some (.branch (mkPid pg mat) (Forest.ofList ks), rest)
        | none => none
    | _ => none
  | [] => none
partial def parseLeafItems (cs : List Char) (acc : List (Bytes × Ent)) : Option (List (Bytes × Ent) × List Char) :=
  match cs with
  | ')' :: rest => some (acc.reverse, rest)
  | ',' :: rest => parseLeafItems rest acc
  | _ =>
    let (k, rest) := takeKey cs
    match rest with
    | ':' :: 'b' :: rest => parseLeafItems rest (({ vsize := 0, isBucket := true } : Ent) |> fun e => (k, e) :: acc)
    | ':' :: 'k' :: rest =>
      let (n, rest) := parseNat rest
      parseLeafItems rest ((k, { vsize := n, isBucket := false }) :: acc)
    | _ => none
partial def parseBranchItems (cs : List Char) (acc : List (Bytes × CTree)) : Option (List (Bytes × CTree) × List Char) :=
  match cs with
  | ')' :: rest => some (acc.reverse, rest)
  | ',' :: rest => parseBranchItems rest acc
  | _ =>
    let (k, rest) := takeKey cs
    match rest with
    | '=' :: rest =>
      match parseNode rest with
      | some (t, rest) => parseBranchItems rest ((k, t) :: acc)
      | none => none
    | _ => none
end

/-- `path|dirty|tree;path|dirty|tree;...` -/
def parsePretrees (s : String) : List (String × Bool × CTree) :=
  (s.splitOn ";").filterMap (fun b =>
    match b.splitOn "|" with
    | [p, d, t] => (parseNode t.toList).map (fun r => (p, d == "1", r.1))
    | _ => none)

inductive Note where
  | rb (page : Nat) (step : RbStep)   -- `page` identifies the bucket tree: the parent / root page
  | split (page : Nat)

def parseNotes (s : String) : List Note :=
  if s == "-" then [] else
  (s.splitOn "|").filterMap (fun n =>
    let f := n.splitOn ","
    let get (k : String) : Nat := ((f.find? (·.startsWith (k ++ "="))).map (fun x => (x.drop (k.length + 1)).toString.toNat!)).getD 0
    match f with
    | "rb" :: "merge" :: _ => some (.rb (get "parent") (.merge (get "parent") (get "index")))
    | "rb" :: "collapse" :: _ => some (.rb (get "root") .collapse)
    | "rb" :: "emptyroot" :: _ => some (.rb (get "root") .emptyRoot)
    | "sp" :: "split" :: _ => some (.split (get "node"))
    | _ => none)

mutual
partial def pagesOfT : CTree → List Nat
  | .leaf p _ => [nodePage p]
  | .branch p kids => nodePage p :: pagesOfF kids
partial def pagesOfF : Forest Bytes Ent → List Nat
  | .nil => []
  | .cons _ t rest => pagesOfT t ++ pagesOfF rest
end

mutual
def toEntT : Tree Bytes LeafVal → CTree
  | .leaf p es => .leaf p (es.map (fun e => (e.1, match e.2 with
      | .kv v => ({ vsize := v.length, isBucket := false } : Ent)
      | .bkt _ _ => { vsize := 0, isBucket := true })))
  | .branch p kids => .branch p (toEntF kids)
def toEntF : Forest Bytes LeafVal → Forest Bytes Ent
  | .nil => .nil
  | .cons k t rest => .cons k (toEntT t) (toEntF rest)
end

mutual
partial def fmtShape : CTree → String
  | .leaf _ es => "L(" ++ ",".intercalate (es.map (fun e => hex e.1 ++ (if e.2.isBucket then ":b" else s!":k{e.2.vsize}"))) ++ ")"
  | .branch _ kids => "B(" ++ ",".intercalate ((Forest.toList kids).map (fun e => hex e.1 ++ "=" ++ fmtShape e.2)) ++ ")"
end

def findView (v : BucketView) : List Bytes → Option BucketView
  | [] => some v
  | n :: rest => match v.subs.find? (fun s => s.1 == n) with
    | some s => findView s.2 rest
    | none => none

mutual
/-- the tree with every leaf emptied (branch keys kept) -/
def emptiedT : CTree → CTree
  | .leaf p _ => .leaf p []
  | .branch p kids => .branch p (emptiedF kids)
def emptiedF : Forest Bytes Ent → Forest Bytes Ent
  | .nil => .nil
  | .cons k t rest => .cons k (emptiedT t) (emptiedF rest)
end

/-- length of the value a canonical value token stands for -/
def valLen (v : Val) : Nat :=
  if v == "-" then 0
  else if v.startsWith "z" then (((v.drop 1).toString.splitOn ":").headD "0").toNat!
  else v.length / 2

/-- Layer T tie: the overlay a write transaction has built over the committed tree `t0` when the bucket
holds `items`: branch entries are not edited before commit, so every item sits in the leaf the model's
`put` routes it to (the result does not depend on the order of the transaction's edits) -/
def predictOverlay (t0 : CTree) (items : List ItemS) : CTree :=
  items.foldl (fun t it => t.put it.1 (match it.2 with
    | .val v => ({ vsize := valLen v, isBucket := false } : Ent)
    | .bkt => { vsize := 0, isBucket := true })) (emptiedT t0)

/-- the model's prediction of the committed shape of one bucket -/
def predictBucket (pagesize : Nat) (pre : CTree) (notes : List Note) : CTree :=
  let pages := pagesOfT pre
  let steps := notes.filterMap (fun n => match n with
    | .rb pg st => if pages.contains pg then some st else none
    | .split _ => none)
  let t := pre.rebalance steps
  let L := Gen.layout
  -- as much fuel as the root has pieces: `spillRoot_terminates`
  let fuel := (spillT Gen.params pagesize L.pageSize L.leafSize L.branchSize L.bmSize [] t).length
  spillRoot Gen.params pagesize L.pageSize L.leafSize L.branchSize L.bmSize fuel t

/-- the reported steps that concern this bucket -/
def rbStepsFor (pre : CTree) (notes : List Note) : List RbStep :=
  let pages := pagesOfT pre
  notes.filterMap (fun n => match n with
    | .rb pg st => if pages.contains pg then some st else none
    | .split _ => none)

/-- the tree between `rebalance` and `spill` (for the invariants that hold there) -/
def rebalanced (pre : CTree) (notes : List Note) : CTree := pre.rebalance (rbStepsFor pre notes)

end Driver
