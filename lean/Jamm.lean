import Jamm.Model.Order
import Jamm.Model.Spec
