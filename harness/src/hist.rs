//! History executor: reads operation lines, runs them on the real jammdb through the public API,
//! writes each line back followed by ` => <outcome>`.
use crate::util::*;
use jammdb::{Bucket, Data, OpenOptions, Tx, DB};
use std::collections::HashMap;
use std::io::{BufRead, Write};
use std::ops::Bound;
use std::panic::{catch_unwind, AssertUnwindSafe};

static mut SNAP_BASE: u64 = 0;
static mut COMMIT_SEQ: u64 = 0;

thread_local! { static NOTES: std::cell::RefCell<Vec<String>> = std::cell::RefCell::new(Vec::new()); }

pub fn install_note_hook() {
    jammdb::verif::set_note_hook(Some(Box::new(|s: &str| {
        NOTES.with(|n| n.borrow_mut().push(s.to_string()));
    })));
}

/// entry points of the LD_PRELOAD shim, when it is loaded
pub struct Shim {
    mark: Option<unsafe extern "C" fn(*const libc::c_char)>,
    arm: Option<unsafe extern "C" fn(libc::c_int, libc::c_int, libc::c_int, libc::c_long)>,
    disarm: Option<unsafe extern "C" fn()>,
    fired: Option<unsafe extern "C" fn() -> libc::c_int>,
}

impl Shim {
    pub fn load() -> Shim {
        unsafe {
            let f = |name: &str| {
                let c = std::ffi::CString::new(name).unwrap();
                let p = libc::dlsym(libc::RTLD_DEFAULT, c.as_ptr());
                if p.is_null() {
                    None
                } else {
                    Some(p)
                }
            };
            Shim {
                mark: f("jshim_mark").map(|p| std::mem::transmute(p)),
                arm: f("jshim_arm").map(|p| std::mem::transmute(p)),
                disarm: f("jshim_disarm").map(|p| std::mem::transmute(p)),
                fired: f("jshim_fired").map(|p| std::mem::transmute(p)),
            }
        }
    }
    pub fn mark(&self, text: &str) {
        if let Some(f) = self.mark {
            let c = std::ffi::CString::new(text).unwrap();
            unsafe { f(c.as_ptr()) }
        }
    }
    pub fn arm(&self, kind: i32, nth: i32, err: i32, short: i64) -> bool {
        if let Some(f) = self.arm {
            unsafe { f(kind, nth, err, short as libc::c_long) };
            true
        } else {
            false
        }
    }
    /// what the armed fault has done so far: nothing, a short write without error, an error returned
    pub fn fired(&self) -> &'static str {
        match self.fired {
            Some(f) => match unsafe { f() } {
                0 => "none",
                1 => "short",
                _ => "err",
            },
            None => "noshim",
        }
    }
    pub fn disarm(&self) {
        if let Some(f) = self.disarm {
            unsafe { f() }
        }
    }
}

pub struct Cfg {
    pub path: String,
    pub pagesize: u64,
    pub numpages: usize,
    pub strict: bool,
    pub populate: bool,
}

pub struct Env {
    pub cfg: Cfg,
    pub db: Option<Box<DB>>,
    pub txs: HashMap<u64, Box<Tx<'static>>>,
    pub buckets: HashMap<u64, (u64, Bucket<'static, 'static>)>,
    pub snap: u64,
    pub wtx: Option<u64>,
    pub shim: Shim,
}

fn fmt_data(d: &Data) -> String {
    match d {
        Data::Bucket(b) => format!("B:{}", hex(b.name())),
        Data::KeyValue(kv) => format!("K:{}:{}", hex(kv.key()), vtok(kv.value())),
    }
}

fn fmt_list(v: &[String]) -> String {
    format!("[{}]", v.join(","))
}

fn parse_bound(s: &str) -> Bound<Vec<u8>> {
    if s == "u" {
        Bound::Unbounded
    } else if let Some(r) = s.strip_prefix("i:") {
        Bound::Included(unhex(r))
    } else if let Some(r) = s.strip_prefix("e:") {
        Bound::Excluded(unhex(r))
    } else {
        panic!("bad bound {}", s)
    }
}

/// The key / name / value arguments of the API are generic (`ToBytes`): the same bytes are passed as
/// `Vec<u8>`, `&[u8]`, `String`, `&str`, `bytes::Bytes` or `&bytes::Bytes`, chosen by a hash of the
/// operation line (stable under shrinking).  Borrowed forms are leaked (they must outlive the transaction).
macro_rules! with_arg {
    ($bytes:expr, $sel:expr, |$k:ident| $e:expr) => {{
        let bytes: Vec<u8> = $bytes;
        let utf8 = std::str::from_utf8(&bytes).is_ok();
        let sel = if bytes.len() > 4096 { 0 } else { $sel % 6 };
        match (sel, utf8) {
            (1, _) => {
                let $k: &'static [u8] = Box::leak(bytes.into_boxed_slice());
                $e
            }
            (2, true) => {
                let $k = String::from_utf8(bytes).unwrap();
                $e
            }
            (3, true) => {
                let $k: &'static str = Box::leak(String::from_utf8(bytes).unwrap().into_boxed_str());
                $e
            }
            (4, _) | (2, false) => {
                let $k = bytes::Bytes::from(bytes);
                $e
            }
            (5, _) | (3, false) => {
                let $k: &'static bytes::Bytes = Box::leak(Box::new(bytes::Bytes::from(bytes)));
                $e
            }
            _ => {
                let $k = bytes;
                $e
            }
        }
    }};
}

fn line_sel(f: &[&str], salt: u64) -> u64 {
    let mut h: u64 = 0xcbf29ce484222325 ^ salt;
    for w in f {
        for b in w.bytes() {
            h = (h ^ b as u64).wrapping_mul(0x100000001b3);
        }
        h = (h ^ 0x20).wrapping_mul(0x100000001b3);
    }
    h >> 7
}

impl Env {
    pub fn new(path: &str) -> Env {
        Env {
            cfg: Cfg { path: path.to_string(), pagesize: 1024, numpages: 32, strict: false, populate: false },
            db: None,
            txs: HashMap::new(),
            buckets: HashMap::new(),
            snap: unsafe { SNAP_BASE },
            wtx: None,
            shim: Shim::load(),
        }
    }

    pub fn close_all(&mut self) {
        self.wtx = None;
        self.buckets.clear();
        self.txs.clear();
        self.db = None;
    }

    pub fn reset(&mut self) {
        self.close_all();
        let _ = std::fs::remove_file(&self.cfg.path);
    }

    pub fn open(&mut self) -> String {
        self.close_all();
        let cfg = &self.cfg;
        let r = catch_unwind(AssertUnwindSafe(|| {
            OpenOptions::new()
                .pagesize(cfg.pagesize)
                .num_pages(cfg.numpages)
                .strict_mode(cfg.strict)
                .mmap_populate(cfg.populate)
                .open(&cfg.path)
        }));
        match r {
            Ok(Ok(db)) => {
                self.db = Some(Box::new(db));
                "ok".into()
            }
            Ok(Err(e)) => err_class(&e),
            Err(p) => panic_class(&*p),
        }
    }

    /// copies the used part of the database file (the larger page count named by the two header
    /// pages; the whole file if that makes no sense) to `dst`
    pub fn snapshot_used(&self, dst: &str) {
        use std::io::Read;
        let mut f = std::fs::File::open(&self.cfg.path).expect("open db file");
        let len = f.metadata().unwrap().len();
        let ps = self.cfg.pagesize as usize;
        let mut hdr = vec![0u8; 2 * ps];
        f.read_exact(&mut hdr).expect("read headers");
        let np = |o: usize| u64::from_le_bytes(hdr[o + 72..o + 80].try_into().unwrap());
        let mut want = std::cmp::max(np(0), np(ps)).saturating_mul(ps as u64);
        if want < 4 * ps as u64 || want > len {
            want = std::cmp::min(len, 64 << 20);
        }
        let mut buf = vec![0u8; want as usize];
        buf[..2 * ps].copy_from_slice(&hdr);
        f.read_exact(&mut buf[2 * ps..]).expect("read body");
        std::fs::write(dst, &buf).expect("write snapshot");
    }

    fn drop_tx_buckets(&mut self, t: u64) {
        self.buckets.retain(|_, (tx, _)| *tx != t);
    }

    fn tx_ref(&self, t: u64) -> &'static Tx<'static> {
        let b = self.txs.get(&t).expect("unknown tx");
        unsafe { &*(&**b as *const Tx<'static>) }
    }

    fn dump_bucket(b: &Bucket, out: &mut String) {
        out.push_str(&format!("{{n={};", b.next_int()));
        let mut first = true;
        for d in b.cursor() {
            if !first {
                out.push(',');
            }
            first = false;
            match &d {
                Data::KeyValue(_) => out.push_str(&fmt_data(&d)),
                Data::Bucket(name) => {
                    out.push_str(&fmt_data(&d));
                    let sub = b.get_bucket(name.name().to_vec()).expect("listed bucket must open");
                    Self::dump_bucket(&sub, out);
                }
            }
        }
        out.push('}');
    }

    pub fn dump_tx(tx: &Tx) -> String {
        let mut out = String::from("{n=-;");
        let mut first = true;
        for (name, b) in tx.buckets() {
            if !first {
                out.push(',');
            }
            first = false;
            out.push_str(&format!("B:{}", hex(name.name())));
            Self::dump_bucket(&b, &mut out);
        }
        out.push('}');
        out
    }

    /// executes one op line; returns the outcome string
    pub fn exec(&mut self, f: &[&str]) -> String {
        let r = catch_unwind(AssertUnwindSafe(|| self.exec_inner(f)));
        match r {
            Ok(s) => s,
            Err(p) => panic_class(&*p),
        }
    }

    fn exec_inner(&mut self, f: &[&str]) -> String {
        let num = |i: usize| -> u64 { f[i].parse().expect("number") };
        match f[0] {
            "cfg" => {
                for kv in &f[1..] {
                    let (k, v) = kv.split_once('=').unwrap();
                    match k {
                        "pagesize" => self.cfg.pagesize = v.parse().unwrap(),
                        "numpages" => self.cfg.numpages = v.parse().unwrap(),
                        "strict" => self.cfg.strict = v == "1",
                        "populate" => self.cfg.populate = v == "1",
                        _ => panic!("bad cfg key"),
                    }
                }
                "ok".into()
            }
            "open" | "reopen" => self.open(),
            "close" => {
                self.close_all();
                "ok".into()
            }
            "begin" => {
                let t = num(1);
                let w = f[2] == "w";
                if w && self.wtx.is_some() {
                    // a second writer on this thread would block forever on the writer mutex
                    return "would-block:writer-open".into();
                }
                let db: &'static DB = unsafe { &*(&**self.db.as_ref().expect("db open") as *const DB) };
                match db.tx(w) {
                    Ok(tx) => {
                        self.txs.insert(t, Box::new(tx));
                        if w {
                            self.wtx = Some(t);
                        }
                        "ok".into()
                    }
                    Err(e) => err_class(&e),
                }
            }
            "commit" => {
                let t = num(1);
                self.drop_tx_buckets(t);
                if self.wtx == Some(t) {
                    self.wtx = None;
                }
                let tx = self.txs.remove(&t).expect("unknown tx");
                let seq = unsafe {
                    COMMIT_SEQ += 1;
                    COMMIT_SEQ
                };
                if let Ok(dir) = std::env::var("JH_CRASH_DIR") {
                    // the used part of the file as it is before this commit
                    self.snapshot_used(&format!("{}/pre-{}.img", dir, seq));
                }
                // notes describe one commit: whatever an earlier, unobserved commit left is dropped
                NOTES.with(|n| n.borrow_mut().clear());
                self.shim.mark(&format!("commit-begin {} {}", seq, t));
                let r = catch_unwind(AssertUnwindSafe(|| (*tx).commit()));
                self.shim.disarm();
                let out = match r {
                    Ok(Ok(())) => "ok".to_string(),
                    Ok(Err(e)) => err_class(&e),
                    Err(p) => panic_class(&*p),
                };
                self.shim.mark(&format!("commit-end {} {} {}", seq, t, out));
                out
            }
            "drop" => {
                let t = num(1);
                self.drop_tx_buckets(t);
                if self.wtx == Some(t) {
                    self.wtx = None;
                }
                self.txs.remove(&t);
                "ok".into()
            }
            "dbcheck" => {
                let db = self.db.as_ref().expect("db open");
                match db.check() {
                    Ok(()) => "ok".into(),
                    Err(e) => err_class(&e),
                }
            }
            "dump" => {
                let tx = self.tx_ref(num(1));
                Self::dump_tx(tx)
            }
            "getb" | "mkb" | "gocb" => {
                let t = num(1);
                let hnew = num(2);
                let hp = num(3);
                let sel = line_sel(f, 1);
                let res = if hp == 0 {
                    let tx = self.tx_ref(t);
                    with_arg!(unhex(f[4]), sel, |name| match f[0] {
                        "getb" => tx.get_bucket(name),
                        "mkb" => tx.create_bucket(name),
                        _ => tx.get_or_create_bucket(name),
                    })
                } else {
                    let (_, b) = self.buckets.get(&hp).expect("unknown handle");
                    with_arg!(unhex(f[4]), sel, |name| match f[0] {
                        "getb" => b.get_bucket(name),
                        "mkb" => b.create_bucket(name),
                        _ => b.get_or_create_bucket(name),
                    })
                };
                match res {
                    Ok(b) => {
                        self.buckets.insert(hnew, (t, b));
                        "ok".into()
                    }
                    Err(e) => err_class(&e),
                }
            }
            "delb" => {
                let t = num(1);
                let hp = num(2);
                let sel = line_sel(f, 2);
                let res = if hp == 0 {
                    let tx = self.tx_ref(t);
                    with_arg!(unhex(f[3]), sel, |name| tx.delete_bucket(name))
                } else {
                    let b = &self.buckets.get(&hp).expect("unknown handle").1;
                    with_arg!(unhex(f[3]), sel, |name| b.delete_bucket(name))
                };
                match res {
                    Ok(()) => "ok".into(),
                    Err(e) => err_class(&e),
                }
            }
            "put" => {
                let b = &self.buckets.get(&num(2)).expect("unknown handle").1;
                let (s1, s2) = (line_sel(f, 3), line_sel(f, 4));
                match with_arg!(unhex(f[3]), s1, |k| with_arg!(unhex(f[4]), s2, |v| b.put(k, v))) {
                    Ok(None) => "ok:none".into(),
                    Ok(Some(kv)) => format!("ok:K:{}:{}", hex(kv.key()), vtok(kv.value())),
                    Err(e) => err_class(&e),
                }
            }
            "get" => {
                let b = &self.buckets.get(&num(2)).expect("unknown handle").1;
                match with_arg!(unhex(f[3]), line_sel(f, 5), |k| b.get(k)) {
                    None => "none".into(),
                    Some(d) => fmt_data(&d),
                }
            }
            "getkv" => {
                let b = &self.buckets.get(&num(2)).expect("unknown handle").1;
                match with_arg!(unhex(f[3]), line_sel(f, 6), |k| b.get_kv(k)) {
                    None => "none".into(),
                    Some(kv) => format!("K:{}:{}", hex(kv.key()), vtok(kv.value())),
                }
            }
            "del" => {
                let b = &self.buckets.get(&num(2)).expect("unknown handle").1;
                match with_arg!(unhex(f[3]), line_sel(f, 7), |k| b.delete(k)) {
                    Ok(kv) => format!("ok:K:{}:{}", hex(kv.key()), vtok(kv.value())),
                    Err(e) => err_class(&e),
                }
            }
            "nextint" => {
                let b = &self.buckets.get(&num(2)).expect("unknown handle").1;
                format!("{}", b.next_int())
            }
            "scan" => {
                let b = &self.buckets.get(&num(2)).expect("unknown handle").1;
                let mut c = b.cursor();
                let mut v = Vec::new();
                while let Some(d) = c.next() {
                    v.push(fmt_data(&d));
                }
                let x1 = c.next().map(|d| fmt_data(&d)).unwrap_or("none".into());
                let x2 = c.next().map(|d| fmt_data(&d)).unwrap_or("none".into());
                format!("{};x={},{}", fmt_list(&v), x1, x2)
            }
            "tscan" => {
                // root-level listing through Tx::buckets
                let tx = self.tx_ref(num(1));
                let v: Vec<String> = tx.buckets().map(|(n, _)| format!("B:{}", hex(n.name()))).collect();
                fmt_list(&v)
            }
            "seek" => {
                let b = &self.buckets.get(&num(2)).expect("unknown handle").1;
                let mut c = b.cursor();
                // optional 5th field: the cursor has already yielded that many entries before it is re-positioned
                let pre: usize = f.get(4).map(|x| x.parse().unwrap()).unwrap_or(0);
                for _ in 0..pre {
                    if c.next().is_none() {
                        break;
                    }
                }
                let ex = with_arg!(unhex(f[3]), line_sel(f, 8), |k| c.seek(k));
                let cur = c.current().map(|d| fmt_data(&d)).unwrap_or("none".into());
                let mut v = Vec::new();
                while let Some(d) = c.next() {
                    v.push(fmt_data(&d));
                }
                let x1 = c.next().map(|d| fmt_data(&d)).unwrap_or("none".into());
                format!("exists={};cur={};out={};x={}", ex as u8, cur, fmt_list(&v), x1)
            }
            "range" => {
                let b = &self.buckets.get(&num(2)).expect("unknown handle").1;
                let lo = parse_bound(f[3]);
                let hi = parse_bound(f[4]);
                let lo_r: Bound<&[u8]> = match &lo {
                    Bound::Included(v) => Bound::Included(v.as_slice()),
                    Bound::Excluded(v) => Bound::Excluded(v.as_slice()),
                    Bound::Unbounded => Bound::Unbounded,
                };
                let hi_r: Bound<&[u8]> = match &hi {
                    Bound::Included(v) => Bound::Included(v.as_slice()),
                    Bound::Excluded(v) => Bound::Excluded(v.as_slice()),
                    Bound::Unbounded => Bound::Unbounded,
                };
                let mut r = b.range((lo_r, hi_r));
                let mut v = Vec::new();
                while let Some(d) = r.next() {
                    v.push(fmt_data(&d));
                }
                let x1 = r.next().map(|d| fmt_data(&d)).unwrap_or("none".into());
                format!("{};x={}", fmt_list(&v), x1)
            }
            "iterb" => {
                // iterb T Hbase Hparent: walk the parent's buckets() iterator and keep the Bucket
                // handles it yields as Hbase, Hbase+1, ... (in iteration order)
                let t = num(1);
                let hbase = num(2);
                let hp = num(3);
                let mut got: Vec<(String, Bucket<'static, 'static>)> = Vec::new();
                if hp == 0 {
                    let tx = self.tx_ref(t);
                    for (n, b) in tx.buckets() {
                        got.push((format!("B:{}", hex(n.name())), b));
                    }
                } else {
                    let b = &self.buckets.get(&hp).expect("unknown handle").1;
                    let b: &'static Bucket<'static, 'static> = unsafe { &*(b as *const Bucket<'static, 'static>) };
                    for (n, sub) in b.buckets() {
                        got.push((format!("B:{}", hex(n.name())), sub));
                    }
                }
                let names: Vec<String> = got.iter().map(|x| x.0.clone()).collect();
                for (i, (_, b)) in got.into_iter().enumerate() {
                    self.buckets.insert(hbase + i as u64, (t, b));
                }
                fmt_list(&names)
            }
            "buckets" => {
                let b = &self.buckets.get(&num(2)).expect("unknown handle").1;
                let v: Vec<String> = b.buckets().map(|(n, _)| format!("B:{}", hex(n.name()))).collect();
                fmt_list(&v)
            }
            "kvpairs" => {
                let b = &self.buckets.get(&num(2)).expect("unknown handle").1;
                let v: Vec<String> = b.kv_pairs().map(|kv| format!("K:{}:{}", hex(kv.key()), vtok(kv.value()))).collect();
                fmt_list(&v)
            }
            "file" => {
                // snapshot the used part of the file for the model driver (which checks it after
                // this process has finished).  Only the length is chosen here: the larger page
                // count named by the two header pages; the Lean checker rejects a short snapshot.
                self.snap += 1;
                let snap = format!("{}.snap{}", self.cfg.path, self.snap);
                self.snapshot_used(&snap);
                snap
            }
            "flstate" => {
                // in-memory shared free list (hook accessor): free set and pending lists
                let db = self.db.as_ref().expect("db open");
                let (free, pending) = jammdb::verif::shared_freelist(db);
                let fl = |v: &Vec<u64>| format!("[{}]", v.iter().map(|x| x.to_string()).collect::<Vec<_>>().join(","));
                let pend: Vec<String> = pending.iter().map(|(t, v)| format!("{}:{}", t, fl(v))).collect();
                format!("free={};pending={}", fl(&free), pend.join(";"))
            }
            "readers" => {
                let db = self.db.as_ref().expect("db open");
                let r = jammdb::verif::open_readers(db);
                format!("[{}]", r.iter().map(|x| x.to_string()).collect::<Vec<_>>().join(","))
            }
            "pretrees" => {
                // the overlay tree of every bucket the transaction has opened, as it is before commit
                let tx = self.tx_ref(num(1));
                NOTES.with(|n| n.borrow_mut().clear());
                let v = jammdb::verif::tx_trees(tx);
                v.iter().map(|(p, d, t)| format!("{}|{}|{}", if p.is_empty() { "-" } else { p.as_str() }, *d as u8, t)).collect::<Vec<_>>().join(";")
            }
            "notes" => {
                // what rebalance / split reported during the last commit
                NOTES.with(|n| {
                    let v = n.borrow().join("|");
                    n.borrow_mut().clear();
                    if v.is_empty() {
                        "-".to_string()
                    } else {
                        v.replace(' ', ",")
                    }
                })
            }
            "tree" => {
                let b = &self.buckets.get(&num(2)).expect("unknown handle").1;
                jammdb::verif::tree_dump(b)
            }
            "snap" => {
                // keep a copy of the whole file under <db path>.<name> (for the image / golden streams)
                let dst = format!("{}.{}", self.cfg.path, f[1]);
                std::fs::copy(&self.cfg.path, &dst).expect("copy db file");
                "ok".into()
            }
            "usefile" => {
                // start from a copy of an existing database file instead of a fresh one
                self.close_all();
                std::fs::copy(f[1], &self.cfg.path).expect("copy golden file");
                "ok".into()
            }
            "fault" => {
                // fault <write|fsync> <nth> <errno> [short_len]: the nth such call on the database
                // file from now on fails (writes: optionally after a short write)
                let kind = if f[1] == "write" { 1 } else { 2 };
                let short: i64 = f.get(4).map(|x| x.parse().unwrap()).unwrap_or(-1);
                if self.shim.arm(kind, f[2].parse().unwrap(), f[3].parse().unwrap(), short) {
                    "ok".into()
                } else {
                    "noshim".into()
                }
            }
            "fired" => self.shim.fired().to_string(),
            "limit" => {
                // limit <bytes|inf>: RLIMIT_FSIZE, with SIGXFSZ ignored so that extension fails with EFBIG
                unsafe {
                    libc::signal(libc::SIGXFSZ, libc::SIG_IGN);
                    let v = if f[1] == "inf" { libc::RLIM_INFINITY } else { f[1].parse::<u64>().unwrap() as libc::rlim_t };
                    let rl = libc::rlimit { rlim_cur: v, rlim_max: libc::RLIM_INFINITY };
                    libc::setrlimit(libc::RLIMIT_FSIZE, &rl);
                }
                "ok".into()
            }
            "mark" => {
                self.shim.mark(&f[1..].join(" "));
                "ok".into()
            }
            "fhash" => {
                // FNV-1a over the whole file: "the file's bytes are unchanged"
                let data = std::fs::read(&self.cfg.path).expect("read db file");
                let mut h: u64 = 0xcbf29ce484222325;
                for b in &data {
                    h = (h ^ (*b as u64)).wrapping_mul(0x100000001b3);
                }
                format!("{:016x}:{}", h, data.len())
            }
            other => panic!("unknown op {}", other),
        }
    }
}

pub fn main(args: &[String]) {
    let inp = std::fs::File::open(&args[0]).expect("open input");
    let out = std::fs::File::create(&args[1]).expect("create output");
    let dbpath = args.get(2).cloned().unwrap_or_else(|| format!("/dev/shm/jh-{}.db", std::process::id()));
    // The transcript is collected in memory and written out only while no file-size limit is in force: the
    // `limit` operation lowers RLIMIT_FSIZE for the whole process, and a flush of the transcript inside
    // that window would fail.
    let mut out = out;
    let mut buf: Vec<u8> = Vec::new();
    let mut limited = false;
    install_note_hook();
    let mut env = Env::new(&dbpath);
    let watchdog_secs: u32 = std::env::var("JH_WATCHDOG").ok().and_then(|v| v.parse().ok()).unwrap_or(120);
    for line in std::io::BufReader::new(inp).lines() {
        let line = line.unwrap();
        let line = line.trim();
        if line.is_empty() || line.starts_with('#') {
            continue;
        }
        if !limited && buf.len() > (1 << 16) {
            out.write_all(&buf).unwrap();
            buf.clear();
        }
        if line.starts_with('!') {
            // an operation that was performed when the (golden) file was created: only the model replays it
            writeln!(buf, "{}", line).unwrap();
            continue;
        }
        let f: Vec<&str> = line.split(' ').collect();
        if f[0] == "hist" {
            // watchdog: a history that hangs (self-deadlock) kills the process; the caller
            // attributes the death to this history
            unsafe { libc::alarm(watchdog_secs) };
            env.reset();
            unsafe { SNAP_BASE = env.snap; }
            env = Env::new(&dbpath);
            if limited {
                // a history that ended while limited: lift the limit
                unsafe {
                    let rl = libc::rlimit { rlim_cur: libc::RLIM_INFINITY, rlim_max: libc::RLIM_INFINITY };
                    libc::setrlimit(libc::RLIMIT_FSIZE, &rl);
                }
                limited = false;
            }
            // the driver attributes a death to the last history whose header reached the transcript
            out.write_all(&buf).unwrap();
            buf.clear();
            writeln!(out, "{}", line).unwrap();
            out.flush().unwrap();
            continue;
        }
        let outcome = env.exec(&f);
        if f[0] == "limit" {
            limited = f.get(1).map(|x| *x != "inf").unwrap_or(false);
        }
        writeln!(buf, "{} => {}", line, outcome).unwrap();
    }
    if limited {
        unsafe {
            let rl = libc::rlimit { rlim_cur: libc::RLIM_INFINITY, rlim_max: libc::RLIM_INFINITY };
            libc::setrlimit(libc::RLIMIT_FSIZE, &rl);
        }
    }
    out.write_all(&buf).unwrap();
    env.reset();
    out.flush().unwrap();
}
