//! Image probe: opens database images (possibly damaged) with the real code and reports what it sees.
//! input lines: `<id> <path> <pagesize>`; output lines: `<id> => <outcome>`
use crate::hist::Env;
use crate::util::*;
use jammdb::OpenOptions;
use std::io::{BufRead, Write};
use std::panic::{catch_unwind, AssertUnwindSafe};

fn probe(path: &str, pagesize: u64) -> String {
    let r = catch_unwind(AssertUnwindSafe(|| {
        let db = match OpenOptions::new().pagesize(pagesize).open(path) {
            Ok(db) => db,
            Err(e) => return err_class(&e),
        };
        let dump = {
            let tx = match db.tx(false) {
                Ok(tx) => tx,
                Err(e) => return err_class(&e),
            };
            Env::dump_tx(&tx)
        };
        let chk = match db.check() {
            Ok(()) => "ok".to_string(),
            Err(e) => err_class(&e),
        };
        format!("ok;dump={};check={}", dump, chk)
    }));
    match r {
        Ok(s) => s,
        Err(p) => panic_class(&*p),
    }
}

/// only the database's own consistency check (for images whose trees were damaged on purpose: reading
/// them through the API may fail in many ways, the check's verdict is what is compared)
fn probe_check(path: &str, pagesize: u64) -> String {
    let r = catch_unwind(AssertUnwindSafe(|| {
        let db = match OpenOptions::new().pagesize(pagesize).open(path) {
            Ok(db) => db,
            Err(e) => return err_class(&e),
        };
        match db.check() {
            Ok(()) => "chk=ok".to_string(),
            Err(e) => format!("chk={}", err_class(&e)),
        }
    }));
    match r {
        Ok(s) => s,
        Err(p) => panic_class(&*p),
    }
}

pub fn main(args: &[String]) {
    let inp = std::fs::File::open(&args[0]).expect("open list");
    let mut out = std::io::BufWriter::new(std::fs::File::create(&args[1]).expect("create out"));
    for line in std::io::BufReader::new(inp).lines() {
        let line = line.unwrap();
        let f: Vec<&str> = line.trim().split(' ').collect();
        if f.len() < 3 {
            continue;
        }
        let outcome = if f[0].starts_with("chk-") { probe_check(f[1], f[2].parse().unwrap()) } else { probe(f[1], f[2].parse().unwrap()) };
        writeln!(out, "{} => {}", f[0], outcome).unwrap();
        out.flush().unwrap();
    }
}
