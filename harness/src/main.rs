//! jharness — runs the real jammdb on inputs shared with the Lean model driver.
//! Subcommands:
//!   hist <in.hist> <out.trace>     execute histories, append each call's outcome
mod conc;
mod hist;
mod images;
mod procw;
mod util;

fn main() {
    let args: Vec<String> = std::env::args().collect();
    if args.len() < 2 {
        eprintln!("usage: jharness <hist|...> args");
        std::process::exit(2);
    }
    // keep panic messages out of stderr noise: we report them through outcomes
    std::panic::set_hook(Box::new(|_| {}));
    match args[1].as_str() {
        "hist" => hist::main(&args[2..]),
        "images" => images::main(&args[2..]),
        "conc" => conc::main(&args[2..]),
        "proc" => procw::main(&args[2..]),
        other => {
            eprintln!("unknown subcommand {}", other);
            std::process::exit(2);
        }
    }
}
