//! Worker process for the process-exclusion stream (C13): opens the database, records what it sees,
//! commits a marker, holds the database for a while, closes.  Timestamps are CLOCK_MONOTONIC ns.
//! usage: jharness proc <dbpath> <id> <pagesize> <logfile> <hold_ms> <start_delay_ms> [<grow: number of 4000-byte values> [<fifo: wait there once inside, before working>]]
use crate::util::*;
use jammdb::OpenOptions;
use std::io::Write;
use std::panic::{catch_unwind, AssertUnwindSafe};

/// one `write` call per line: several workers append to the same log concurrently
fn logline(log: &mut std::fs::File, mut line: String) {
    line.push('\n');
    log.write_all(line.as_bytes()).unwrap();
}

fn now() -> u128 {
    let mut ts = libc::timespec { tv_sec: 0, tv_nsec: 0 };
    unsafe { libc::clock_gettime(libc::CLOCK_MONOTONIC, &mut ts) };
    ts.tv_sec as u128 * 1_000_000_000 + ts.tv_nsec as u128
}

pub fn main(args: &[String]) {
    let path = args[0].clone();
    let id = args[1].clone();
    let pagesize: u64 = args[2].parse().unwrap();
    let mut log = std::fs::OpenOptions::new().create(true).append(true).open(&args[3]).expect("log");
    let hold_ms: u64 = args[4].parse().unwrap();
    let delay_ms: u64 = args[5].parse().unwrap();
    let grow: usize = args.get(6).map(|s| s.parse().unwrap()).unwrap_or(0);
    std::thread::sleep(std::time::Duration::from_millis(delay_ms));
    if std::env::var("JH_SIGNALS").is_ok() {
        // a handled signal that does not restart system calls: a blocking lock call then returns EINTR
        extern "C" fn noop(_: libc::c_int) {}
        unsafe {
            let mut sa: libc::sigaction = std::mem::zeroed();
            sa.sa_sigaction = noop as usize;
            sa.sa_flags = 0;
            libc::sigemptyset(&mut sa.sa_mask);
            libc::sigaction(libc::SIGUSR1, &sa, std::ptr::null_mut());
        }
    }
    logline(&mut log, format!("{} open-called {}", id, now()));
    let db = loop {
        let r = catch_unwind(AssertUnwindSafe(|| OpenOptions::new().pagesize(pagesize).num_pages(16).open(&path)));
        match r {
            Ok(Ok(db)) => break db,
            // an interrupted wait for the lock is a clean refusal: the caller tries again
            Ok(Err(jammdb::Error::Io(ref e))) if e.kind() == std::io::ErrorKind::Interrupted => {
                logline(&mut log, format!("{} open-interrupted {}", id, now()));
                continue;
            }
            Ok(Err(e)) => {
                logline(&mut log, format!("{} open-failed {} {}", id, now(), err_class(&e)));
                return;
            }
            Err(p) => {
                logline(&mut log, format!("{} open-failed {} {}", id, now(), panic_class(&*p)));
                return;
            }
        }
    };
    logline(&mut log, format!("{} open-returned {}", id, now()));
    if let Some(fifo) = args.get(7) {
        // inside the database, nothing done yet: wait until the orchestrator releases us
        std::fs::File::create(format!("{}.at", fifo)).expect("at");
        let _ = std::fs::File::open(fifo); // blocks until somebody opens the fifo for writing
    }
    let work = catch_unwind(AssertUnwindSafe(|| {
        let seen: Vec<String> = {
            let tx = db.tx(false).unwrap();
            let v = match tx.get_bucket("markers") {
                Ok(b) => b.kv_pairs().map(|kv| String::from_utf8_lossy(kv.key()).to_string()).collect(),
                Err(_) => Vec::new(),
            };
            // walk everything an earlier holder may have written
            if let Ok(g) = tx.get_bucket("growth") {
                let mut n = 0usize;
                for kv in g.kv_pairs() {
                    n += kv.value().len();
                }
                std::hint::black_box(n);
            }
            v
        };
        let tx = db.tx(true).unwrap();
        let b = tx.get_or_create_bucket("markers").unwrap();
        b.put(id.clone().into_bytes(), vec![1u8]).unwrap();
        drop(b);
        if grow > 0 {
            // make the commit grow the file well past its current size
            let g = tx.get_or_create_bucket("growth").unwrap();
            for i in 0..grow {
                g.put(format!("{}-{:05}", id, i).into_bytes(), vec![(i % 251) as u8; 4000]).unwrap();
            }
        }
        let c = tx.commit();
        (seen, c.is_ok())
    }));
    match work {
        Ok((seen, ok)) => logline(&mut log, format!("{} worked {} seen=[{}] commit={}", id, now(), seen.join(","), ok)),
        Err(p) => logline(&mut log, format!("{} work-failed {} {}", id, now(), panic_class(&*p))),
    }
    std::thread::sleep(std::time::Duration::from_millis(hold_ms));
    logline(&mut log, format!("{} about-to-close {}", id, now()));
    drop(db);
    logline(&mut log, format!("{} closed {}", id, now()));
}
