//! Worker process for the process-exclusion stream (C13): opens the database, records what it sees,
//! commits a marker, holds the database for a while, closes.  Timestamps are CLOCK_MONOTONIC ns.
//! usage: jharness proc <dbpath> <id> <pagesize> <logfile> <hold_ms> <start_delay_ms>
use crate::util::*;
use jammdb::OpenOptions;
use std::io::Write;
use std::panic::{catch_unwind, AssertUnwindSafe};

fn now() -> u128 {
    let mut ts = libc::timespec { tv_sec: 0, tv_nsec: 0 };
    unsafe { libc::clock_gettime(libc::CLOCK_MONOTONIC, &mut ts) };
    ts.tv_sec as u128 * 1_000_000_000 + ts.tv_nsec as u128
}

pub fn main(args: &[String]) {
    let path = args[0].clone();
    let id = args[1].clone();
    let pagesize: u64 = args[2].parse().unwrap();
    let mut log = std::fs::OpenOptions::new().create(true).append(true).open(&args[3]).expect("log");
    let hold_ms: u64 = args[4].parse().unwrap();
    let delay_ms: u64 = args[5].parse().unwrap();
    std::thread::sleep(std::time::Duration::from_millis(delay_ms));
    writeln!(log, "{} open-called {}", id, now()).unwrap();
    let r = catch_unwind(AssertUnwindSafe(|| OpenOptions::new().pagesize(pagesize).num_pages(16).open(&path)));
    let db = match r {
        Ok(Ok(db)) => db,
        Ok(Err(e)) => {
            writeln!(log, "{} open-failed {} {}", id, now(), err_class(&e)).unwrap();
            return;
        }
        Err(p) => {
            writeln!(log, "{} open-failed {} {}", id, now(), panic_class(&*p)).unwrap();
            return;
        }
    };
    writeln!(log, "{} open-returned {}", id, now()).unwrap();
    let work = catch_unwind(AssertUnwindSafe(|| {
        let seen: Vec<String> = {
            let tx = db.tx(false).unwrap();
            let v = match tx.get_bucket("markers") {
                Ok(b) => b.kv_pairs().map(|kv| String::from_utf8_lossy(kv.key()).to_string()).collect(),
                Err(_) => Vec::new(),
            };
            v
        };
        let tx = db.tx(true).unwrap();
        let b = tx.get_or_create_bucket("markers").unwrap();
        b.put(id.clone().into_bytes(), vec![1u8]).unwrap();
        drop(b);
        let c = tx.commit();
        (seen, c.is_ok())
    }));
    match work {
        Ok((seen, ok)) => writeln!(log, "{} worked {} seen=[{}] commit={}", id, now(), seen.join(","), ok).unwrap(),
        Err(p) => writeln!(log, "{} work-failed {} {}", id, now(), panic_class(&*p)).unwrap(),
    }
    std::thread::sleep(std::time::Duration::from_millis(hold_ms));
    writeln!(log, "{} about-to-close {}", id, now()).unwrap();
    drop(db);
    writeln!(log, "{} closed {}", id, now()).unwrap();
}
