pub fn hex(b: &[u8]) -> String {
    if b.is_empty() {
        return "-".to_string();
    }
    let mut s = String::with_capacity(b.len() * 2);
    for x in b {
        s.push_str(&format!("{:02x}", x));
    }
    s
}

/// canonical value token: long uniform values are run-length coded (`z<len>:<hh>`), else hex
pub fn vtok(b: &[u8]) -> String {
    if b.len() >= 64 && b.iter().all(|x| *x == b[0]) {
        return format!("z{}:{:02x}", b.len(), b[0]);
    }
    hex(b)
}

pub fn unhex(s: &str) -> Vec<u8> {
    if s == "-" {
        return Vec::new();
    }
    if let Some(rest) = s.strip_prefix('z') {
        let (n, b) = rest.split_once(':').expect("z token");
        let n: usize = n.parse().expect("z len");
        let b = u8::from_str_radix(b, 16).expect("z byte");
        return vec![b; n];
    }
    let b = s.as_bytes();
    let mut v = Vec::with_capacity(b.len() / 2);
    let mut i = 0;
    while i + 1 < b.len() {
        let h = (b[i] as char).to_digit(16).unwrap() as u8;
        let l = (b[i + 1] as char).to_digit(16).unwrap() as u8;
        v.push(h * 16 + l);
        i += 2;
    }
    v
}

pub fn panic_class(p: &(dyn std::any::Any + Send)) -> String {
    let msg = if let Some(s) = p.downcast_ref::<&str>() {
        s.to_string()
    } else if let Some(s) = p.downcast_ref::<String>() {
        s.clone()
    } else {
        "unknown".to_string()
    };
    if msg.contains("deleted bucket") {
        return "panic:deleted".to_string();
    }
    if msg.contains("Invalid pagesize") {
        return "panic:pagesize".to_string();
    }
    if msg.contains("NO VALID META PAGES") {
        return "panic:nometa".to_string();
    }
    let clean: String = msg
        .chars()
        .take(60)
        .map(|c| if c.is_ascii_alphanumeric() { c } else { '_' })
        .collect();
    format!("panic:{}", clean)
}

pub fn err_class(e: &jammdb::Error) -> String {
    use jammdb::Error::*;
    match e {
        BucketExists => "err:BucketExists".into(),
        BucketMissing => "err:BucketMissing".into(),
        KeyValueMissing => "err:KeyValueMissing".into(),
        IncompatibleValue => "err:IncompatibleValue".into(),
        ReadOnlyTx => "err:ReadOnlyTx".into(),
        Io(_) => "err:Io".into(),
        Sync(_) => "err:Sync".into(),
        InvalidDB(m) => format!("err:InvalidDB:{}", m.chars().take(40).map(|c| if c.is_ascii_alphanumeric() { c } else { '_' }).collect::<String>()),
        Alloc(_) => "err:Alloc".into(),
    }
}
