//! Deterministic thread schedules (C04, C09).
//!
//! Real jammdb transactions run on real threads, but only one thread runs at a time: every thread
//! parks at the library's `verif::point` yield points (and at a few points of its own script) until
//! the scheduler picks it.  The scheduler never releases a thread into a lock acquisition that would
//! block (it tracks the writer mutex and the map read lock from the begin / end points), so runs are
//! deterministic and "blocked" is computed, never timed out.
//!
//! usage: jharness conc <program> <mode> <out>     (see `main`)
use crate::hist::Env;
use crate::util::*;
use jammdb::{OpenOptions, DB};
use std::cell::Cell;
use std::collections::HashMap;
use std::io::Write;
use std::panic::{catch_unwind, AssertUnwindSafe};
use std::sync::atomic::{AtomicUsize, Ordering};
use std::sync::{Arc, Condvar, Mutex};

thread_local! { static TID: Cell<usize> = Cell::new(usize::MAX); }

#[derive(Clone, Copy, PartialEq, Debug)]
enum Want {
    Nothing,
    WriterLock,
    ReaderLock,
    MapWriteLock,
    /// a reader waits in the middle of its transaction until that many commits have returned
    Commits(usize),
}

struct State {
    nthreads: usize,
    current: Option<usize>,
    parked: Vec<Option<(String, u64, Want)>>,
    finished: Vec<bool>,
    writer_open: Option<usize>,
    readers_open: Vec<usize>,
    decisions: usize,
    preempt: HashMap<usize, usize>,
    random: Option<u64>,
    last: Option<usize>,
    events: Vec<String>,
    deadlock: Option<String>,
    max_decisions: usize,
    /// eager mode: a thread asking for the writer lock may be released while the lock is held; it then
    /// really blocks inside the lock call (whatever the code does before the lock call runs early)
    eager: bool,
    blocked: Vec<bool>,
}

pub struct Sched {
    mu: Mutex<State>,
    cv: Condvar,
    commits_done: Arc<AtomicUsize>,
}

static mut SCHED: Option<Arc<Sched>> = None;

fn sched() -> Option<Arc<Sched>> {
    unsafe { (*std::ptr::addr_of!(SCHED)).clone() }
}

fn hook(name: &'static str, arg: u64) {
    let tid = TID.with(|t| t.get());
    if tid == usize::MAX {
        return;
    }
    if name == "resize.after_remap" {
        // still inside the map write lock and the map-handle mutex: never park here
        return;
    }
    if let Some(s) = sched() {
        s.point(tid, name, arg);
    }
}

impl Sched {
    fn point(&self, tid: usize, name: &str, arg: u64) {
        let mut st = self.mu.lock().unwrap();
        // lock tracking from the points
        let want = match name {
            "begin.enter" => {
                if arg == 1 {
                    Want::WriterLock
                } else {
                    Want::ReaderLock
                }
            }
            "begin.locked" => {
                st.blocked[tid] = false;
                if arg == 1 {
                    st.writer_open = Some(tid);
                } else {
                    st.readers_open[tid] += 1;
                }
                Want::Nothing
            }
            "resize.before_write_lock" => Want::MapWriteLock,
            "user.tx_closed_w" => {
                // (a thread that was blocked inside the lock call may already have taken the lock over)
                if st.writer_open == Some(tid) {
                    st.writer_open = None;
                }
                Want::Nothing
            }
            "user.tx_closed_r" => {
                st.readers_open[tid] -= 1;
                Want::Nothing
            }
            "user.r_mid" => Want::Commits(arg as usize),
            _ => Want::Nothing,
        };
        st.events.push(format!("{}:{}:{}", tid, name, arg));
        if std::env::var("JH_CONC_TRACE").is_ok() {
            eprintln!("{}:{}:{}", tid, name, arg);
        }
        st.parked[tid] = Some((name.to_string(), arg, want));
        if st.current == Some(tid) {
            st.current = None;
        }
        self.cv.notify_all();
        while st.current != Some(tid) {
            st = self.cv.wait(st).unwrap();
        }
        st.parked[tid] = None;
        if st.blocked[tid] {
            // released although the lock is held: the scheduler does not wait for us
            st.current = None;
            self.cv.notify_all();
        }
    }

    fn finish(&self, tid: usize) {
        let mut st = self.mu.lock().unwrap();
        st.finished[tid] = true;
        if st.current == Some(tid) {
            st.current = None;
        }
        self.cv.notify_all();
    }

    fn enabled(&self, st: &State, t: usize) -> bool {
        match &st.parked[t] {
            None => false,
            Some((_, _, want)) => match want {
                Want::Nothing => true,
                Want::WriterLock => st.writer_open.is_none(),
                Want::ReaderLock => true,
                Want::MapWriteLock => st.readers_open.iter().sum::<usize>() == 0,
                // ... or until every writer has finished (then nothing more will be committed)
                Want::Commits(n) => self.commits_done.load(Ordering::SeqCst) >= *n || (0..st.nthreads).all(|u| u == t || st.finished[u] || st.parked[u].as_ref().map(|p| matches!(p.2, Want::Commits(_))).unwrap_or(false)),
            },
        }
    }

    /// runs until every thread has finished or nothing is enabled
    fn drive(&self) {
        let mut st = self.mu.lock().unwrap();
        loop {
            // wait until nobody is running
            while st.current.is_some() {
                st = self.cv.wait(st).unwrap();
            }
            if st.finished.iter().all(|f| *f) {
                return;
            }
            // every unfinished thread must be parked before we decide
            // (a thread blocked inside the writer lock call is settled as long as the lock is held)
            let all_parked = (0..st.nthreads).all(|t| st.finished[t] || st.parked[t].is_some() || (st.blocked[t] && st.writer_open.is_some()));
            if !all_parked {
                st = self.cv.wait(st).unwrap();
                continue;
            }
            let mut en: Vec<usize> = (0..st.nthreads).filter(|t| self.enabled(&st, *t)).collect();
            let eager_ok = st.eager && st.writer_open.is_some() && st.blocked.iter().all(|b| !*b);
            let eager: Vec<usize> = if eager_ok {
                (0..st.nthreads).filter(|t| !en.contains(t) && matches!(st.parked[*t].as_ref().map(|p| p.2), Some(Want::WriterLock))).collect()
            } else {
                Vec::new()
            };
            // an eager release needs somebody else who can run (the lock holder), or nothing would ever arrive
            if !en.is_empty() {
                en.extend(eager.iter().cloned());
                en.sort();
            }
            if en.is_empty() {
                // a reader that is only waiting (in its script) for more commits gives up waiting when
                // nothing else can run: that wait is part of the test program, not of the database
                en = (0..st.nthreads).filter(|t| matches!(st.parked[*t].as_ref().map(|p| p.2), Some(Want::Commits(_)))).collect();
            }
            if en.is_empty() {
                let blocked: Vec<String> = (0..st.nthreads)
                    .filter(|t| !st.finished[*t])
                    .map(|t| format!("{}@{}", t, st.parked[t].as_ref().map(|p| p.0.clone()).unwrap_or_default()))
                    .collect();
                st.deadlock = Some(blocked.join(","));
                return;
            }
            let d = st.decisions;
            st.decisions += 1;
            if st.decisions > st.max_decisions {
                st.deadlock = Some("too-many-decisions".into());
                return;
            }
            let default = match st.last {
                Some(l) if en.contains(&l) => l,
                _ => en[0],
            };
            let mut choice = default;
            if let Some(p) = st.preempt.get(&d) {
                if en.contains(p) {
                    choice = *p;
                }
            }
            if let Some(seed) = st.random.as_mut() {
                // seeded random schedule
                *seed = seed.wrapping_mul(6364136223846793005).wrapping_add(1442695040888963407);
                choice = en[((*seed >> 33) as usize) % en.len()];
            }
            if en.len() > 1 {
                st.events.push(format!("D{}:{}:{:?}", d, choice, en));
            }
            if eager.contains(&choice) {
                st.events.push(format!("E{}:{}", d, choice));
                st.blocked[choice] = true;
                st.current = Some(choice);
                self.cv.notify_all();
                while st.current.is_some() {
                    st = self.cv.wait(st).unwrap();
                }
                // give it time to run up to the lock call and block there (only detection power depends on this)
                drop(st);
                std::thread::sleep(std::time::Duration::from_millis(3));
                st = self.mu.lock().unwrap();
                continue;
            }
            st.last = Some(choice);
            st.current = Some(choice);
            self.cv.notify_all();
        }
    }
}

fn upoint(name: &'static str, arg: u64) {
    hook(name, arg);
}

fn dump_db(db: &DB) -> String {
    let r = catch_unwind(AssertUnwindSafe(|| match db.tx(false) {
        Ok(tx) => Env::dump_tx(&tx),
        Err(e) => err_class(&e),
    }));
    match r {
        Ok(s) => s,
        Err(p) => panic_class(&*p),
    }
}

pub struct RunResult {
    pub lines: Vec<String>,
    pub decisions: usize,
    pub deadlock: Option<String>,
    pub events: Vec<String>,
}

/// the writer chain of program `iso`: commit i rewrites the same keys with other sizes (pages recycle)
pub fn iso_writer_ops(i: usize) -> Vec<(Vec<u8>, Vec<u8>)> {
    let mut v = Vec::new();
    for k in 0..6usize {
        let key = format!("key-{:02}", k).into_bytes();
        // same sizes in every commit: each commit frees and re-allocates runs of the same lengths, so
        // pages of a snapshot are reused as soon as they are released
        let len = 40 + (k % 3) * 100;
        v.push((key, vec![(65 + (i * 7 + k) % 26) as u8; len]));
    }
    v
}

/// one run of a program under one schedule
pub fn run_once(program: &str, path: &str, preempt: HashMap<usize, usize>, random: Option<u64>, ncommits: usize, nreaders: usize, nwriters: usize) -> RunResult {
    let _ = std::fs::remove_file(path);
    let numpages = if program == "grow" { 4 } else { 3000 };
    let db = OpenOptions::new().pagesize(1024).num_pages(numpages).open(path).expect("open");
    // initial committed state (before any thread runs: the hook ignores the main thread)
    {
        let tx = db.tx(true).unwrap();
        let b = tx.create_bucket("b").unwrap();
        for (k, v) in iso_writer_ops(0) {
            b.put(k, v).unwrap();
        }
        b.put("counter", 0u64.to_be_bytes()).unwrap();
        tx.commit().unwrap();
    }
    let nthreads = nreaders + nwriters;
    let commits_done = Arc::new(AtomicUsize::new(0));
    let s = Arc::new(Sched {
        commits_done: commits_done.clone(),
        mu: Mutex::new(State {
            nthreads,
            current: None,
            parked: vec![None; nthreads],
            finished: vec![false; nthreads],
            writer_open: None,
            readers_open: vec![0; nthreads],
            decisions: 0,
            preempt,
            random,
            last: None,
            events: Vec::new(),
            deadlock: None,
            max_decisions: 20000,
            eager: std::env::var("JH_CONC_EAGER").is_ok(),
            blocked: vec![false; nthreads],
        }),
        cv: Condvar::new(),
    });
    unsafe {
        SCHED = Some(s.clone());
    }
    let writers_in = Arc::new(AtomicUsize::new(0));
    let overlap = Arc::new(AtomicUsize::new(0));
    let out: Arc<Mutex<Vec<String>>> = Arc::new(Mutex::new(Vec::new()));
    let mut handles = Vec::new();
    for t in 0..nthreads {
        let db = db.clone();
        let s2 = s.clone();
        let out = out.clone();
        let commits_done = commits_done.clone();
        let writers_in = writers_in.clone();
        let overlap = overlap.clone();
        let program = program.to_string();
        let is_writer = t >= nreaders;
        handles.push(std::thread::spawn(move || {
            TID.with(|c| c.set(t));
            upoint("user.start", t as u64);
            let r = catch_unwind(AssertUnwindSafe(|| {
                if is_writer {
                    for i in 1..=ncommits {
                        let tx = db.tx(true).unwrap();
                        if writers_in.fetch_add(1, Ordering::SeqCst) != 0 {
                            overlap.fetch_add(1, Ordering::SeqCst);
                        }
                        upoint("user.w_began", i as u64);
                        {
                            let b = tx.get_bucket("b").unwrap();
                            if program == "iso" {
                                for (k, v) in iso_writer_ops(i) {
                                    b.put(k, v).unwrap();
                                }
                            } else {
                                // read-modify-write increment; `grow` also adds data so the file must be extended
                                let cur = b.get_kv("counter").map(|kv| u64::from_be_bytes(kv.value().try_into().unwrap())).unwrap();
                                upoint("user.w_read", cur);
                                b.put("counter", (cur + 1).to_be_bytes()).unwrap();
                                if program == "grow" {
                                    b.put(format!("big-{}-{}", t, i).into_bytes(), vec![7u8; 3 * 1024 * 1024]).unwrap();
                                }
                            }
                        }
                        // (the window in which another write transaction must not be open includes the commit)
                        let res = tx.commit();
                        writers_in.fetch_sub(1, Ordering::SeqCst);
                        let n = commits_done.fetch_add(1, Ordering::SeqCst) + 1;
                        out.lock().unwrap().push(format!("wcommit {} {} {} {}", t, i, n, if res.is_ok() { "ok".to_string() } else { err_class(&res.unwrap_err()) }));
                        upoint("user.tx_closed_w", i as u64);
                    }
                } else {
                    let rounds = if program == "iso" { 2 } else { 2 };
                    for j in 0..rounds {
                        upoint("user.r_before_begin", j as u64);
                        let seen = commits_done.load(Ordering::SeqCst);
                        let tx = db.tx(false).unwrap();
                        upoint("user.r_began", j as u64);
                        let d1 = catch_unwind(AssertUnwindSafe(|| Env::dump_tx(&tx))).unwrap_or_else(|p| panic_class(&*p));
                        // wait (as a disabled thread, not by spinning) until two more commits have returned
                        upoint("user.r_mid", (seen + 2) as u64);
                        let d2 = catch_unwind(AssertUnwindSafe(|| Env::dump_tx(&tx))).unwrap_or_else(|p| panic_class(&*p));
                        out.lock().unwrap().push(format!("robs {} {} seen={} d1={} d2={}", t, j, seen, d1, d2));
                        drop(tx);
                        upoint("user.tx_closed_r", j as u64);
                    }
                }
            }));
            if let Err(p) = r {
                out.lock().unwrap().push(format!("tpanic {} {}", t, panic_class(&*p)));
                // make sure the scheduler does not believe this thread still holds a lock
                let mut st = s2.mu.lock().unwrap();
                if st.writer_open == Some(t) {
                    st.writer_open = None;
                }
                st.readers_open[t] = 0;
            }
            s2.finish(t);
        }));
    }
    s.drive();
    let (decisions, deadlock, events) = {
        let st = s.mu.lock().unwrap();
        (st.decisions, st.deadlock.clone(), st.events.clone())
    };
    let mut lines = Vec::new();
    if deadlock.is_none() {
        for h in handles {
            let _ = h.join();
        }
        unsafe {
            SCHED = None;
        }
        lines = out.lock().unwrap().clone();
        lines.push(format!("overlap {}", overlap.load(Ordering::SeqCst)));
        lines.push(format!("final {}", dump_db(&db)));
    } else {
        lines = out.lock().unwrap().clone();
    }
    RunResult { lines, decisions, deadlock, events }
}

/// jharness conc <program iso|rmw|grow> <out> <path> <ncommits> <nreaders> <nwriters> <mode> [args]
///   mode `one p1:t1,p2:t2`      a single schedule with the given preemptions
///   mode `bounded <k> <limit> <seed>`  all schedules with at most k preemptions (sampled down to limit)
///   mode `random <n> <seed>`    n seeded random schedules
pub fn main(args: &[String]) {
    jammdb::verif::set_hook(Some(Box::new(hook)));
    let program = args[0].clone();
    let mut out = std::io::BufWriter::new(std::fs::File::create(&args[1]).expect("create out"));
    let path = args[2].clone();
    let ncommits: usize = args[3].parse().unwrap();
    let nreaders: usize = args[4].parse().unwrap();
    let nwriters: usize = args[5].parse().unwrap();
    let mode = args[6].as_str();
    let nthreads = nreaders + nwriters;
    let mut scheds: Vec<(HashMap<usize, usize>, Option<u64>)> = Vec::new();
    match mode {
        "one" => {
            let mut m = HashMap::new();
            if args.len() > 7 && !args[7].is_empty() && args[7] != "-" {
                for kv in args[7].split(',') {
                    let (a, b) = kv.split_once(':').unwrap();
                    m.insert(a.parse().unwrap(), b.parse().unwrap());
                }
            }
            let rnd = args.get(8).map(|s| s.parse().unwrap());
            scheds.push((m, rnd));
        }
        "bounded" => {
            let k: usize = args[7].parse().unwrap();
            let limit: usize = args[8].parse().unwrap();
            let mut seed: u64 = args[9].parse().unwrap();
            // the undisturbed run gives the number of decision points
            let base = run_once(&program, &path, HashMap::new(), None, ncommits, nreaders, nwriters);
            let n = base.decisions;
            scheds.push((HashMap::new(), None));
            let mut all: Vec<HashMap<usize, usize>> = Vec::new();
            for p in 0..n + 8 {
                for t in 0..nthreads {
                    let mut m = HashMap::new();
                    m.insert(p, t);
                    all.push(m);
                }
            }
            if k >= 2 {
                for p in 0..n + 8 {
                    for q in p + 1..n + 8 {
                        for t in 0..nthreads {
                            for u in 0..nthreads {
                                let mut m = HashMap::new();
                                m.insert(p, t);
                                m.insert(q, u);
                                all.push(m);
                            }
                        }
                    }
                }
            }
            // deterministic sample
            while all.len() > limit {
                seed = seed.wrapping_mul(6364136223846793005).wrapping_add(1442695040888963407);
                let i = ((seed >> 33) as usize) % all.len();
                all.swap_remove(i);
            }
            for m in all {
                scheds.push((m, None));
            }
        }
        "random" => {
            let n: usize = args[7].parse().unwrap();
            let seed: u64 = args[8].parse().unwrap();
            for i in 0..n {
                scheds.push((HashMap::new(), Some(seed.wrapping_mul(1000003).wrapping_add(i as u64 * 7919 + 1))));
            }
        }
        _ => panic!("bad mode"),
    }
    for (i, (m, rnd)) in scheds.into_iter().enumerate() {
        let mut pre: Vec<String> = m.iter().map(|(a, b)| format!("{}:{}", a, b)).collect();
        pre.sort();
        let r = run_once(&program, &path, m, rnd, ncommits, nreaders, nwriters);
        writeln!(out, "run {} program={} commits={} readers={} writers={} preempt={} random={} eager={} decisions={}", i, program, ncommits, nreaders, nwriters,
                 if pre.is_empty() { "-".to_string() } else { pre.join(",") }, rnd.map(|x| x.to_string()).unwrap_or("-".into()),
                 if std::env::var("JH_CONC_EAGER").is_ok() { 1 } else { 0 }, r.decisions).unwrap();
        if i == 0 {
            // what each transaction writes (the model derives the expected committed states from this)
            for (k, v) in iso_writer_ops(0) {
                writeln!(out, "def init {} {}", hex(&k), vtok(&v)).unwrap();
            }
            writeln!(out, "def init {} {}", hex(b"counter"), hex(&0u64.to_be_bytes())).unwrap();
            if program == "iso" {
                for c in 1..=ncommits {
                    for (k, v) in iso_writer_ops(c) {
                        writeln!(out, "def commit {} {} {}", c, hex(&k), vtok(&v)).unwrap();
                    }
                }
            }
        }
        for l in &r.lines {
            writeln!(out, "{}", l).unwrap();
        }
        if let Some(d) = &r.deadlock {
            writeln!(out, "deadlock {}", d).unwrap();
            writeln!(out, "events {}", r.events.join(" ")).unwrap();
            writeln!(out, "end").unwrap();
            out.flush().unwrap();
            // parked threads can not be recovered: leave
            let _ = std::fs::remove_file(&path);
            std::process::exit(3);
        }
        if std::env::var("JH_CONC_EVENTS").is_ok() {
            writeln!(out, "events {}", r.events.join(" ")).unwrap();
        }
        writeln!(out, "end").unwrap();
    }
    out.flush().unwrap();
    let _ = std::fs::remove_file(&path);
}
