"""Byte-image streams (C12, C15): damaged / golden database images opened by the real code and by the
Lean model (decoder + header choice + file checker)."""
import concurrent.futures as cf
import os
import random
import re
import shutil

import vlib
from vlib import log

HASHED_RANGES = None


def layout_consts():
    txt = open(os.path.join(vlib.LEAN, "Jamm/Gen/Layout.lean")).read()
    return {m.group(1): int(m.group(2)) for m in re.finditer(r"^\s+(\w+) := (\d+)", txt, flags=re.M)}


def significant_offsets():
    """page offsets of a header page whose bytes are checked or hashed (per the generated layout)"""
    L = layout_consts()
    base = L["pgPtr"]
    offs = {L["pgType"]}
    for f, sz in [("mMetaPage", L["mMetaPageSz"]), ("mMagic", L["mMagicSz"]), ("mVersion", L["mVersionSz"]), ("mPagesize", 8),
                  ("mRoot", 16), ("mNumPages", 8), ("mFreelist", 8), ("mTxId", 8), ("mHash", 8)]:
        for i in range(sz):
            offs.add(base + L[f] + i)
    return offs, base + L["metaSize"]


def base_history(seed, ncommits, pagesize):
    """a database with nested buckets, overflow values, page reuse; a full copy is kept after every commit"""
    import jgen
    r = random.Random(seed)
    lines = ["hist img-base-%d" % seed, "cfg pagesize=%d numpages=32 strict=0 populate=0" % pagesize, "open", "snap c0"]
    t = 1
    for c in range(1, ncommits + 1):
        lines.append("begin %d w" % t)
        if c == 3:
            # a write transaction that changes nothing is a commit too: it must leave its own header, so that
            # the fallback from it is the commit before it and not the one before that
            lines += ["commit %d" % t, "snap c%d" % c]
            t += 1
            lines += ["file", "begin %d r" % t, "dump %d" % t, "drop %d" % t]
            t += 1
            continue
        lines.append("gocb %d 1 0 %s" % (t, jgen.hx(b"main")))
        lines.append("gocb %d 2 1 %s" % (t, jgen.hx(b"nested-%d" % (c % 2))))
        for _ in range(r.randrange(4, 14)):
            k = jgen.dkey(r.randrange(30), 100)
            if r.random() < 0.3:
                lines.append("del %d 1 %s" % (t, jgen.hx(k)))
            else:
                lines.append("put %d 1 %s %s" % (t, jgen.hx(k), jgen.vtok(bytes([r.randrange(256)]) * r.choice([3, 200, 700, 2600]))))
        lines.append("put %d 2 %s %s" % (t, jgen.hx(b"c%d" % c), jgen.vtok(bytes([65 + c]) * 80)))
        if c % 3 == 0:
            lines.append("delb %d 1 %s" % (t, jgen.hx(b"nested-%d" % ((c + 1) % 2))))
        lines.append("commit %d" % t)
        lines.append("snap c%d" % c)
        t += 1
        # the state of every commit is compared with the specification: bytes (`file`) and API (`dump`)
        lines.append("file")
        lines.append("begin %d r" % t)
        lines.append("dump %d" % t)
        lines.append("drop %d" % t)
        t += 1
    lines.append("close")
    return lines


def run_probe(scratch, items, tag, deaths=0):
    """items: list of (id, path, pagesize).  returns ({id: impl outcome}, {id: (model outcome, extra)})"""
    lst = scratch.path("%s.list" % tag)
    with open(lst, "w") as f:
        for i, p, ps in items:
            f.write("%s %s %d\n" % (i, p, ps))
    out_i = scratch.path("%s.impl" % tag)
    # (a clean probe takes a few milliseconds per image; a probe that hangs — the code under test looping over
    # a damaged page count, say — must not cost more than this)
    rc, o, e, _ = vlib.sh([vlib.JHARNESS, "images", lst, out_i], timeout=20 + len(items) // 4)
    impl = {}
    if os.path.exists(out_i):
        for l in open(out_i, errors="replace"):
            a, _, b = l.rstrip("\n").partition(" => ")
            impl[a] = b
    if rc != 0:
        # the probe process died (abort): attribute to the first id without an outcome, continue with the rest
        rest = [it for it in items if it[0] not in impl]
        if rest:
            impl[rest[0][0]] = "died:rc=%d" % rc
            if len(rest) > 1 and deaths < 3:
                i2, _ = run_probe(scratch, rest[1:], tag + "r", deaths + 1)
                impl.update(i2)
            elif len(rest) > 1:
                # the probe died or hung four times in this chunk: the first ones are reported, the rest not run
                for it in rest[1:]:
                    impl[it[0]] = "notrun:probe died repeatedly"
    rc2, o2, e2, _ = vlib.sh([vlib.JMODEL, "images", lst], timeout=900)
    model = {}
    for l in o2.split("\n"):
        a, sep, b = l.partition(" => ")
        if sep:
            main, _, extra = b.partition(" ## ")
            model[a] = (main, extra)
    return impl, model


def parallel_probe(scratch, items, jobs=12):
    chunks = [items[i::jobs] for i in range(jobs) if items[i::jobs]]
    impl, model = {}, {}
    with cf.ThreadPoolExecutor(max_workers=jobs) as ex:
        for i, m in ex.map(lambda a: run_probe(scratch, a[1], "p%d" % a[0]), list(enumerate(chunks))):
            impl.update(i)
            model.update(m)
    # an image left without a verdict of the real code because the probe process of its chunk died or ran out of time
    # on ANOTHER image is probed again on its own (bounded): the lack of a verdict is never read as a failure of that
    # image; an image on which a probe dies alone keeps its `died` outcome (the real code aborting on it)
    redo = [it for it in items if impl.get(it[0], "missing") == "missing" or impl.get(it[0], "").startswith("notrun")]
    for k, it in enumerate(redo[:400]):
        i2, m2 = run_probe(scratch, [it], "redo%d" % (k % 8))
        if it[0] in i2:
            impl[it[0]] = i2[it[0]]
        if it[0] not in model and it[0] in m2:
            model[it[0]] = m2[it[0]]
    return impl, model


def own_check_mismatch(impl_outcome, model_entry):
    """the real `DB::check` verdict on an image that opened vs the Lean model of that check (`implCheck`)
    evaluated on the same bytes.  Only one direction is demanded (it is what the theorem needs, and the Lean
    decoder also bounds-checks bytes the real check never reads): model accepts ⇒ real accepts.  Returns a
    description of the disagreement or None."""
    m = re.match(r"ok;dump=.*;check=(\S+)$", impl_outcome or "")
    mm = re.search(r"implcheck=(ok|err)", (model_entry or ("", ""))[1] or "")
    if not m or not mm:
        return None
    if mm.group(1) == "ok" and m.group(1) != "ok":
        return "the database's own check says %s, its Lean model accepts" % m.group(1)[:60]
    return None


def dump_of(outcome):
    m = re.match(r"ok;dump=(.*);check=(\S+)$", outcome)
    return (m.group(1), m.group(2)) if m else (None, None)
