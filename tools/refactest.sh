#!/bin/bash
# applies each harmless refactoring to /repo, runs the quick tier, undoes it
cd /verif
rm -rf .work/evidence.keep3; cp -r evidence .work/evidence.keep3
for d in /verif/refactors/*/; do
  n=$(basename $d)
  git -C /repo diff --quiet || { echo "/repo dirty"; exit 2; }
  git -C /repo apply $d/patch.diff || { echo "REFAC $n: patch does not apply"; continue; }
  for id in C01 C02 C03 C04 C05 C06 C07 C08 C09 C10 C11 C12 C13 C14 C15 C16; do
    out=$(./check $id --tier quick 2>/dev/null | grep -E "^(VIOLATION|OK)" | head -2 | cut -c1-200 | tr '\n' ' ')
    echo "REFAC $n $id: $out"
  done
  git -C /repo checkout -- .
done
JAMM_GEN_API=1 python3 /verif/tools/gen_all.py >/dev/null
rm -rf evidence; mv .work/evidence.keep3 evidence
