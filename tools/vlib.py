"""Shared machinery for /verif/check: builds, audit, harness/driver runs, shrinking, evidence."""
import fcntl
import hashlib
import json
import os
import re
import shutil
import subprocess
import sys
import time

ROOT = "/verif"
REPO = "/repo"
WORK = os.path.join(ROOT, ".work")
LEAN = os.path.join(ROOT, "lean")
HARNESS = os.path.join(ROOT, "harness")
TARGET = os.path.join(WORK, "target")
JMODEL = os.path.join(LEAN, ".lake/build/bin/jmodel")
JHARNESS = os.path.join(TARGET, "debug/jharness")
ALLOWED_AXIOMS = {"propext", "Classical.choice", "Quot.sound"}
# `admit` only as a tactic (an identifier such as a structure field named `admit` is fine; the axiom audit
# is what actually excludes sorryAx)
FORBIDDEN = re.compile(r"\b(sorry|native_decide|bv_decide|implemented_by|unsafe)\b|(^|\bby\s+|;\s*|<;>\s*|·\s*)admit\b(?!\s*:)|^\s*axiom\s|maxHeartbeats\s+0")

ENV = dict(os.environ)
ENV["CARGO_TARGET_DIR"] = TARGET
ENV["CARGO_NET_OFFLINE"] = "true"


def log(*a):
    print(*a, file=sys.stderr, flush=True)


def sh(cmd, cwd=None, timeout=None, env=None, input=None):
    t0 = time.time()
    try:
        p = subprocess.run(cmd, cwd=cwd, env=env or ENV, capture_output=True, text=True, timeout=timeout, input=input, shell=isinstance(cmd, str))
        return p.returncode, p.stdout, p.stderr, time.time() - t0
    except subprocess.TimeoutExpired as e:
        return 124, (e.stdout or b"").decode() if isinstance(e.stdout, bytes) else (e.stdout or ""), "TIMEOUT", time.time() - t0


class BuildResult:
    def __init__(self):
        self.ok = True
        self.lean_ok = True
        self.harness_ok = True
        self.gen_ok = True
        self.messages = []
        self.failed_obligations = []  # names of Lean modules / theorems that no longer check


def scan_forbidden():
    """text scan of the Lean sources (comments stripped) for escape hatches"""
    hits = []
    for d, _, files in os.walk(os.path.join(LEAN, "Jamm")):
        for f in files:
            if not f.endswith(".lean"):
                continue
            p = os.path.join(d, f)
            src = open(p).read()
            # strip block comments and line comments
            src = re.sub(r"/-.*?-/", "", src, flags=re.S)
            for n, line in enumerate(src.split("\n"), 1):
                line = line.split("--")[0]
                if FORBIDDEN.search(line):
                    hits.append("%s:%d: %s" % (os.path.relpath(p, ROOT), n, line.strip()[:100]))
    return hits


def build(prop, need_harness=True):
    """regenerate Gen/*, build the property's Lean module + the model driver + the harness.
    Serialised across concurrent checks by a file lock."""
    os.makedirs(WORK, exist_ok=True)
    r = BuildResult()
    with open(os.path.join(WORK, "build.lock"), "w") as lk:
        fcntl.flock(lk, fcntl.LOCK_EX)
        # 1. translators
        gen = os.path.join(ROOT, "tools", "gen_all.py")
        if os.path.exists(gen):
            genv = dict(ENV)
            if prop == "C14":
                genv["JAMM_GEN_API"] = "1"   # the API table needs nightly rustdoc (≈13 s when the source changed)
            rc, out, err, dt = sh([sys.executable, gen], cwd=ROOT, timeout=900, env=genv)
            if rc == 3:
                # part of the generated model could not be regenerated: the poisoned file makes exactly
                # the theorems that depend on it fail to build (reported below if this property is one)
                r.messages.append("translator (partial): " + (out + err)[-1500:])
            elif rc != 0:
                r.ok = r.gen_ok = False
                r.messages.append("translator failed: " + (out + err)[-2000:])
                r.failed_obligations.append("translator:" + (out + err).strip().split("\n")[-1][:200])
        # 2. lean
        targets = ["jmodel", "Jamm.Props.%s" % prop] + (["japi"] if prop == "C14" else [])
        if prop == "C09":
            # built on its own, after the rest: when the step tables could not be regenerated (or no longer
            # give ordered programs) the search executable may not build; that is reported by the runner
            sh(["lake", "build", "jlocks"], cwd=LEAN, timeout=3000)
        rc, out, err, dt = sh(["lake", "build"] + targets, cwd=LEAN, timeout=3000)
        if rc != 0:
            r.ok = r.lean_ok = False
            txt = out + err
            r.messages.append("lake build failed:\n" + txt[-4000:])
            for m in re.finditer(r"error: (\S+\.lean):(\d+):\d+: (.*)", txt):
                r.failed_obligations.append("%s:%s %s" % (m.group(1), m.group(2), m.group(3)[:160]))
            if not r.failed_obligations:
                r.failed_obligations.append("lake build " + " ".join(targets))
        # 3. harness
        if need_harness:
            lock_src = os.path.join(REPO, "Cargo.lock")
            lock_dst = os.path.join(HARNESS, "Cargo.lock")
            if os.path.exists(lock_src) and not os.path.exists(lock_dst):
                shutil.copy(lock_src, lock_dst)
            rc, out, err, dt = sh(["cargo", "build", "--offline"], cwd=HARNESS, timeout=3000)
            if rc != 0:
                r.ok = r.harness_ok = False
                r.messages.append("cargo build failed:\n" + err[-4000:])
    return r


def audit(prop):
    """list the theorems in namespace Jamm.Props.<prop> with the axioms each depends on"""
    os.makedirs(WORK, exist_ok=True)
    f = os.path.join(WORK, "audit_%s.lean" % prop)
    with open(f, "w") as fh:
        fh.write("import Jamm.AuditTool\nimport Jamm.Props.%s\n#audit_ns %s\n" % (prop, prop))
    with open(os.path.join(WORK, "build.lock"), "w") as lk:
        fcntl.flock(lk, fcntl.LOCK_EX)   # concurrent checks must not run lake in the same directory at once
        rc0, out0, err0, _ = sh(["lake", "build", "Jamm.AuditTool"], cwd=LEAN, timeout=1200)
        rc, out, err, dt = sh(["lake", "env", "lean", f], cwd=LEAN, timeout=1200)
    thms = []
    for line in out.split("\n"):
        if line.startswith("AUDIT "):
            fl = line.split(" ")
            ns, name = fl[1], fl[2]
            axs = [a for a in fl[3].split(",") if a] if len(fl) > 3 else []
            if ns == prop:
                thms.append({"name": name, "axioms": axs, "ok": set(axs) <= ALLOWED_AXIOMS})
    return thms, (rc, (out + err)[-2000:])


def recheck(prop):
    """thorough tier: replay the compiled property module through the kernel with the toolchain's independent
    re-checker (`leanchecker`); returns None when it accepts, else the message"""
    with open(os.path.join(WORK, "build.lock"), "w") as lk:
        fcntl.flock(lk, fcntl.LOCK_EX)
        rc, out, err, dt = sh(["lake", "env", "leanchecker", "Jamm.Props.%s" % prop], cwd=LEAN, timeout=3000)
    return None if rc == 0 else ("leanchecker rc=%d %s" % (rc, (out + err)[-400:]))


class Scratch:
    """per-invocation scratch directory; databases live on /dev/shm when present"""

    def __init__(self, tag):
        self.dir = os.path.join(WORK, "run-%s-%d" % (tag, os.getpid()))
        os.makedirs(self.dir, exist_ok=True)
        shm = "/dev/shm" if os.path.isdir("/dev/shm") else self.dir
        self.dbdir = os.path.join(shm, "jverif-%s-%d" % (tag, os.getpid()))
        os.makedirs(self.dbdir, exist_ok=True)
        self.n = 0

    def path(self, name):
        return os.path.join(self.dir, name)

    def db(self, name="db"):
        return os.path.join(self.dbdir, name)

    def cleanup(self):
        shutil.rmtree(self.dir, ignore_errors=True)
        shutil.rmtree(self.dbdir, ignore_errors=True)


def split_histories(lines):
    hs = []
    cur = None
    for l in lines:
        if l.startswith("hist "):
            cur = [l]
            hs.append(cur)
        elif cur is not None:
            cur.append(l)
    return hs


def run_hist(scratch, lines, name="h", timeout=600, harness_env=None, mode="hist"):
    """runs histories through the real code (harness) and the Lean driver.
    returns (results, stats): results = {hist id: {'status': 'OK'|'SPECDIFF'|..., 'detail': str}}"""
    scratch.n += 1
    hist = scratch.path("%s-%d.hist" % (name, scratch.n))
    trace = scratch.path("%s-%d.trace" % (name, scratch.n))
    with open(hist, "w") as f:
        f.write("\n".join(lines) + "\n")
    env = dict(ENV)
    if harness_env:
        env.update(harness_env)
    rc, out, err, dt1 = sh([JHARNESS, "hist", hist, trace, scratch.db("db-%d" % scratch.n)], timeout=timeout, env=env)
    results = {}
    ids = [l.split(" ")[1] for l in lines if l.startswith("hist ")]
    if rc != 0:
        # the harness died (abort, hang): find the history it was in
        done = []
        if os.path.exists(trace):
            done = [l.split(" ")[1] for l in open(trace, errors="replace") if l.startswith("hist ")]
        culprit = done[-1] if done else (ids[0] if ids else "?")
        for i in ids:
            if i == culprit:
                results[i] = {"status": "HARNESS_DIED", "detail": "rc=%d %s" % (rc, err[-300:])}
            elif i in done:
                results[i] = {"status": "UNKNOWN", "detail": "before harness death"}
            else:
                results[i] = {"status": "NOTRUN", "detail": ""}
        return results, {"harness_s": dt1, "driver_s": 0, "harness_rc": rc}
    rc2, out2, err2, dt2 = sh([JMODEL, mode, trace], timeout=timeout)
    stats = {"harness_s": dt1, "driver_s": dt2}
    for line in out2.split("\n"):
        if line.startswith("RESULT "):
            f = line.split(" ", 3)
            results[f[1]] = {"status": f[2], "detail": f[3] if len(f) > 3 else ""}
        elif line.startswith("STAT "):
            for kv in line.split(" ")[1:]:
                k, _, v = kv.partition("=")
                try:
                    stats[k] = stats.get(k, 0) + int(v)
                except ValueError:
                    stats[k] = v
    if rc2 != 0:
        for i in ids:
            results.setdefault(i, {"status": "DRIVER_DIED", "detail": err2[-300:]})
    for i in ids:
        results.setdefault(i, {"status": "NORESULT", "detail": ""})
    return results, stats


def failing(results):
    return {k: v for k, v in results.items() if v["status"] not in ("OK",)}


STRUCT_OPS = ("hist", "cfg", "open", "begin", "commit", "close", "drop", "reopen")


def shrink_history(scratch, hist_lines, still_fails, max_runs=400):
    """greedy delta debugging on the op lines of one history.  `still_fails(lines)` -> bool"""
    lines = list(hist_lines)
    runs = 0
    chunk = max(1, len(lines) // 2)
    while chunk >= 1 and runs < max_runs:
        i = 0
        changed = False
        while i < len(lines) and runs < max_runs:
            cand_idx = [j for j in range(i, min(len(lines), i + chunk)) if lines[j].split(" ")[0] not in STRUCT_OPS]
            if not cand_idx:
                i += chunk
                continue
            cand = [l for j, l in enumerate(lines) if j not in set(cand_idx)]
            runs += 1
            if still_fails(cand):
                lines = cand
                changed = True
            else:
                i += chunk
        if not changed:
            chunk //= 2
    return lines


def sig_of(detail):
    """coarse signature of a SPECDIFF so that shrinking keeps the same failure"""
    m = re.search(r"op=\[(\S+)", detail)
    op = m.group(1) if m else "?"
    g = re.search(r"got=\[([^\]]{0,40})", detail)
    got = g.group(1) if g else ""
    got = re.sub(r"[0-9a-f]{6,}", "H", got)
    return op + "|" + got[:24]


def write_replay(prop, name, lines, meta):
    d = os.path.join(WORK, "replays")
    os.makedirs(d, exist_ok=True)
    p = os.path.join(d, "%s-%s.hist" % (prop, name))
    with open(p, "w") as f:
        f.write("# replay for property %s\n" % prop)
        for k, v in meta.items():
            f.write("# %s: %s\n" % (k, str(v).replace("\n", " ")[:2000]))
        f.write("\n".join(lines) + "\n")
    return p


def load_findings():
    p = os.path.join(ROOT, "KNOWN_FINDINGS.txt")
    open_f, fixed = [], []
    if os.path.exists(p):
        for line in open(p):
            line = line.strip()
            if line.startswith("finding:"):
                d = dict(kv.split("=", 1) for kv in line[len("finding:"):].split(" — ")[0].split() if "=" in kv)
                d["text"] = line.split(" — ", 1)[1] if " — " in line else ""
                open_f.append(d)
            elif line.startswith("fixed:"):
                fixed.append(line)
    return open_f, fixed


def write_evidence(prop, tier, seed, level, coverage, assumptions, wall, violations):
    os.makedirs(os.path.join(ROOT, "evidence"), exist_ok=True)
    ev = {
        "property_id": prop,
        "tier": tier,
        "seed": seed,
        "level": level,
        "coverage": coverage,
        "assumptions": assumptions,
        "wall_s": round(wall, 2),
        "violations": violations,
    }
    with open(os.path.join(ROOT, "evidence", "%s.json" % prop), "w") as f:
        json.dump(ev, f, indent=1, sort_keys=True)
    return ev


def hist_hash(lines):
    return hashlib.sha1("\n".join(lines[1:]).encode()).hexdigest()
