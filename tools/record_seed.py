#!/usr/bin/env python3
"""usage: record_seed.py <seed id> <note or -> <prop> [<prop>...]: runs tools/run_seed.sh, stores detection.txt and
meta.json["detected_by"] (what the quick checks print with the seeded change applied)."""
import json, subprocess, sys, os
sid, note, props = sys.argv[1], sys.argv[2], sys.argv[3:]
out = subprocess.run(["/verif/tools/run_seed.sh", sid] + props, capture_output=True, text=True).stdout
lines = [l for l in out.split("\n") if l.startswith("SEED") or l.startswith("VIOLATION") or l.startswith("OK") or l.startswith("KNOWN")]
d = "/verif/seeded/" + sid
open(d + "/detection.txt", "w").write("\n".join(lines) + "\n")
m = json.load(open(d + "/meta.json"))
det = []
cur = None
for l in lines:
    if l.startswith("SEED"):
        cur = l.split("CHECK ")[1].split(" ")[0]
        res = l.split("-> ", 1)[1]
    else:
        res = l
    if res.startswith("VIOLATION"):
        det.append({"check": "./check %s --tier quick" % cur, "result": res[:200]})
m["detected_by"] = det
m["missed_by"] = [p for p in props if not any(x["check"].split()[1] == p for x in det)]
if note != "-":
    m["note"] = note
json.dump(m, open(d + "/meta.json", "w"), indent=1)
print(sid, "detected_by", [x["check"].split()[1] for x in det], "missed_by", m["missed_by"])
