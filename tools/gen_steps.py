#!/usr/bin/env python3
"""Translators for protocol step orders and guard sites: /repo/src -> lean/Jamm/Gen/{Steps,Sites}.lean.

Each function body of interest is cut out by brace matching and scanned, in source order, for a fixed
table of markers (lock acquisitions, file operations, publications).  The result is an ordered list
of step constructors; the Lean theorems are about decidable predicates on such lists.  A marker that
is expected exactly once and is found zero or several times makes the translator fail loudly."""
import os
import re
import sys

from gen_all import GenError, src, strip_comments, write_if_changed


def _block_from(text, i, what):
    depth = 0
    j = i
    while j < len(text):
        c = text[j]
        if c == "{":
            depth += 1
        elif c == "}":
            depth -= 1
            if depth == 0:
                return text[i + 1 : j]
        j += 1
    raise GenError("unbalanced braces in %s" % what)


def _split_top(sx):
    out, d, cur = [], 0, ""
    for ch in sx:
        if ch in "([{<":
            d += 1
        elif ch in ")]}>":
            d -= 1
        if ch == "," and d == 0:
            out.append(cur.strip())
            cur = ""
        else:
            cur += ch
    if cur.strip():
        out.append(cur.strip())
    return out


def _paren_end(text, i):
    """index of the parenthesis matching the one at i"""
    d, j = 0, i
    while j < len(text):
        if text[j] == "(":
            d += 1
        elif text[j] == ")":
            d -= 1
            if d == 0:
                return j
        j += 1
    raise GenError("unbalanced parentheses")


def inline_private_helpers(text, body, what, rounds=2):
    """tolerance for the most common harmless rewrite: part of the function moved into a private helper.
    A helper is a plain `fn` (not `pub`) of the same file that is called exactly once in the whole file, from
    this body; its body — with `self` replaced by the receiver of the call and each parameter by the argument
    expression — is spliced in right after the call, so the markers keep their relative order."""
    done = set()
    for _ in range(rounds):
        changed = False
        for m in re.finditer(r"\n\s*fn (\w+)\s*(?:<[^>]*>)?\(", text):
            name = m.group(1)
            if name in done:
                continue
            rx = r"(?:(?P<recv>[\w\.]+)\.|Self::|(?<![\w\.:]))%s\(" % re.escape(name)
            calls_file = [c for c in re.finditer(rx, text) if not text[:c.start()].rstrip().endswith("fn")]
            calls_body = list(re.finditer(rx, body))
            if len(calls_file) != 1 or len(calls_body) != 1:
                continue
            try:
                pe = _paren_end(text, m.end() - 1)
                params = _split_top(text[m.end():pe])
                hb = _block_from(text, text.index("{", pe), what + "/" + name)
                c = calls_body[0]
                ce = _paren_end(body, c.end() - 1)
                args = _split_top(body[c.end():ce])
            except (GenError, ValueError):
                continue
            pnames = []
            has_self = False
            for prm in params:
                if re.fullmatch(r"&?\s*(?:mut\s+)?self", prm.replace("'_ ", "")) or re.fullmatch(r"&'\w+\s+(?:mut\s+)?self", prm):
                    has_self = True
                else:
                    pnames.append(re.sub(r"^mut\s+", "", prm.split(":")[0].strip()))
            if len(pnames) != len(args):
                continue
            sub = hb
            if has_self and c.group("recv"):
                sub = re.sub(r"(?<![\w\.])self(?![\w])", c.group("recv"), sub)
            for pn, a in zip(pnames, args):
                a = re.sub(r"^&(?:mut\s+)?", "", a)
                sub = re.sub(r"(?<![\w\.])%s(?![\w])" % re.escape(pn), a.replace("\\", "\\\\"), sub)
            body = body[: ce + 1] + " /*inlined %s*/ { " % name + sub + " } " + body[ce + 1 :]
            done.add(name)
            changed = True
        if not changed:
            break
    return body


def fn_body(text, header_regex, what):
    m = re.search(header_regex, text)
    if not m:
        raise GenError("function not found: %s" % what)
    i = text.index("{", m.end() - 1) if text[m.end() - 1] != "{" else m.end() - 1
    return inline_private_helpers(text, _block_from(text, i, what), what)


SIGS = {}
PINS = os.path.join(os.path.dirname(os.path.abspath(__file__)), "steps_pins.json")
HOOK_LINE = re.compile(r'#\[cfg\(feature = "verif-hooks"\)\]\s*crate::verif::(?:point|note)\((?:[^()]|\([^()]*\))*\);')


def _contexts(body):
    """for every index of `body`: the tuple of headers of the brace blocks that enclose it.  The header of a
    block is the text between the previous `;`, `{` or `}` and its `{` (whitespace collapsed): `if cond`,
    `for x in y`, `let written = (|| -> Result<()>`, `else`, ...; plain blocks (empty header) are dropped,
    since they do not change what runs."""
    ctx_at = [None] * (len(body) + 1)
    stack = []
    last = -1
    for i, ch in enumerate(body):
        ctx_at[i] = tuple(h for h in stack if h)
        if ch == "{":
            hdr = re.sub(r"\s+", " ", body[last + 1 : i]).strip()
            mi = re.search(r"/\*inlined (\w+)\*/", hdr)
            if mi:
                hdr = "<inlined %s>" % mi.group(1)     # a spliced-in helper body: a plain block as far as control flow goes
            stack.append(hdr)
            last = i
        elif ch == "}":
            if stack:
                stack.pop()
            last = i
        elif ch == ";":
            last = i
    ctx_at[len(body)] = ()
    return ctx_at


def signature(body, found, what):
    """what the step list does not show: the control flow around each marker.  (marker, enclosing conditions /
    loops / closures), every `return` / `break` / `continue` with its position among the markers, and the
    number of `?` (error exits) between consecutive markers.  Compared with the pinned signature of the
    source the models were written against: a marker that moved under an `if`, into a loop or behind an
    early return makes the translator refuse instead of emitting the same list."""
    hooks = [(m.start(), m.end()) for m in HOOK_LINE.finditer(body)]
    clean = list(body)
    for a, b in hooks:
        for k in range(a, b):
            if clean[k] not in "{}":
                clean[k] = " "
    clean = "".join(clean)
    if "#[cfg" in clean:
        raise GenError("%s: conditional compilation inside a translated function (only the verif-hooks yield points are expected)" % what)
    ctx = _contexts(clean)
    # helpers spliced in by the inliner: those that contain translated steps are looked into, the others
    # (e.g. the consistency check, called once) count as one call whose error exit is the `?` on the call
    with_steps = {h for pos, _ in found for h in ctx[pos] if h.startswith("<inlined ")}

    def opaque(c):
        return any(h.startswith("<inlined ") and h not in with_steps for h in c)

    def vis(c):
        return [h for h in c if not h.startswith("<inlined ")]

    marks = [[st, vis(ctx[pos])] for pos, st in found]
    exits = []
    for m in re.finditer(r"\b(return|break|continue)\b", clean):
        if opaque(ctx[m.start()]):
            continue
        gap = sum(1 for pos, _ in found if pos < m.start())
        exits.append([m.group(1), vis(ctx[m.start()]), gap])
    q = [0] * (len(found) + 1)
    for m in re.finditer(r"\?(?=[;.)\s,])", clean):
        if opaque(ctx[m.start()]):
            continue
        q[sum(1 for pos, _ in found if pos <= m.start())] += 1
    return {"markers": marks, "exits": exits, "error_exits_between_markers": q}


def check_pins(pin_mode=False):
    import json
    if pin_mode:
        with open(PINS, "w") as f:
            json.dump(SIGS, f, indent=1, sort_keys=True)
        return
    if not os.path.exists(PINS):
        raise GenError("tools/steps_pins.json is missing (python3 tools/gen_steps.py --pin)")
    want = json.load(open(PINS))
    for what, sig in SIGS.items():
        w = want.get(what)
        if w is None:
            raise GenError("%s: no pinned control-flow signature" % what)
        now = json.loads(json.dumps(sig))
        if w == now:
            continue
        if [m_[0] for m_ in w["markers"]] != [m_[0] for m_ in now["markers"]]:
            # the ORDER (or the set) of the steps changed: that is what the regenerated table shows to the Lean
            # obligations, which decide it; only the order-independent part of the signature is compared here
            def loose(x):
                return {"markers": sorted(map(json.dumps, x["markers"])), "exits": sorted(json.dumps(e[:2]) for e in x["exits"]),
                        "error_exits_between_markers": sum(x["error_exits_between_markers"])}
            lw, ln = loose(w), loose(now)
            common = set(m_[0] for m_ in w["markers"]) & set(m_[0] for m_ in now["markers"])
            lw["markers"] = [m_ for m_ in lw["markers"] if json.loads(m_)[0] in common]
            ln["markers"] = [m_ for m_ in ln["markers"] if json.loads(m_)[0] in common]
            if lw == ln:
                continue
            w, sig = lw, ln
        for key in ("markers", "exits", "error_exits_between_markers"):
            a, b = w[key], json.loads(json.dumps(sig[key]))
            if a != b:
                diff = next(((x, y) for x, y in zip(a, b) if x != y), (a[len(b):][:1] or None, b[len(a):][:1] or None)) if isinstance(a, list) else (a, b)
                raise GenError("%s: the control flow around the translated steps changed (%s): pinned %s, now %s — the step list alone no longer says what the function does" % (what, key, str(diff[0])[:160], str(diff[1])[:160]))


def scan(body, table, what, once=()):
    """returns the ordered list of (position, step) for all markers found"""
    found = []
    for step, rx in table:
        for m in re.finditer(rx, body):
            found.append((m.start(), step))
    found.sort()
    SIGS[what] = signature(body, found, what)
    steps = [s for _, s in found]
    for s in once:
        n = steps.count(s)
        if n != 1:
            raise GenError("%s: expected exactly one `%s`, found %d" % (what, s, n))
    return steps


def no_test(text):
    i = text.find("#[cfg(test)]")
    return text if i < 0 else text[:i]


def gen_steps():
    tx = strip_comments(no_test(src("tx.rs")))
    db = strip_comments(no_test(src("db.rs")))

    # ---- Tx::new --------------------------------------------------------------------------
    b = fn_body(tx, r"pub\(crate\) fn new\(db: &'tx DB, writable: bool\) -> Result<Tx<'tx>> \{", "Tx::new")
    begin = scan(b, [
        ("lockTx", r"db\.inner\.file\.lock\(\)"),
        ("lockTxRead", r"db\.inner\.mmap_lock\.read\(\)"),
        ("cloneFreelist", r"db\.inner\.freelist\.lock\(\)\?\.clone\(\)"),
        ("readMeta", r"db\.inner\.meta\(\)"),
        ("lockReaders", r"db\.inner\.open_ro_txs\.lock\(\)"),
        ("bumpTxId", r"meta\.tx_id \+= 1"),
        ("release", r"freelist\.release\("),
        ("registerReader", r"open_ro_txs\.push\("),
        ("cloneMap", r"db\.inner\.data\.lock\(\)\?\.clone\(\)"),
    ], "Tx::new", once=("lockTx", "lockTxRead", "cloneFreelist", "readMeta", "lockReaders", "bumpTxId", "registerReader", "cloneMap"))
    if begin.count("release") < 1:
        raise GenError("Tx::new: no freelist.release( call")
    # the reader-list guard lives in a block: find where that block ends relative to the markers
    lk = re.search(r"let mut open_ro_txs = db\.inner\.open_ro_txs\.lock\(\)", b)
    if not lk:
        raise GenError("Tx::new: open_ro_txs guard binding not found")
    # walk backwards to the opening brace of the enclosing block, then match it
    depth = 0
    i = lk.start()
    while i >= 0:
        if b[i] == "}":
            depth += 1
        elif b[i] == "{":
            if depth == 0:
                break
            depth -= 1
        i -= 1
    if i < 0:
        # guard bound at function level: held to the end of the function
        block_end = len(b)
    else:
        d = 0
        j = i
        while j < len(b):
            if b[j] == "{":
                d += 1
            elif b[j] == "}":
                d -= 1
                if d == 0:
                    break
            j += 1
        block_end = j
    # collapse release duplicates (two branches of one if) and the two lock kinds into one step
    pos = []
    for step, rx in [("lockTx", r"let lock = match writable"), ("cloneFreelist", r"db\.inner\.freelist\.lock\(\)\?\.clone\(\)"),
                     ("readMeta", r"db\.inner\.meta\(\)"), ("lockReaders", r"db\.inner\.open_ro_txs\.lock\(\)"),
                     ("releaseOrRegister", r"if writable \{\s*meta\.tx_id \+= 1"), ("cloneMap", r"db\.inner\.data\.lock\(\)\?\.clone\(\)")]:
        m = re.search(rx, b)
        if not m:
            raise GenError("Tx::new: marker for %s not found" % step)
        pos.append((m.start(), step))
    pos.append((block_end, "unlockReaders"))
    pos.sort()
    begin_steps = [s for _, s in pos]

    # ---- TxInner::write_data ------------------------------------------------------------------
    w = fn_body(tx, r"fn write_data\(&mut self, freelist: &mut TxFreelist\) -> Result<\(\)> \{", "TxInner::write_data")
    commit = scan(w, [
        ("freeOldFreelist", r"freelist\.free\(self\.meta\.freelist_page"),
        ("allocFreelist", r"freelist\.allocate\(freelist_size\)"),
        ("grow", r"self\.db\.inner\.resize\("),
        ("writeData", r"file\.write_all\(buf\)"),
        ("strictCheck", r"self\.check\(\)"),
        ("writeMeta", r"file\.write_all\(buf\.as_slice\(\)\)"),
        ("flush", r"file\.flush\(\)"),
        ("sync", r"file\.sync_all\(\)"),
        ("beginHeaderAttempt", r"let written = \(\|\| -> Result<\(\)> \{"),
        ("publishFreelist", r"\*lock = freelist\.inner\.clone\(\)"),
    ], "TxInner::write_data", once=("freeOldFreelist", "allocFreelist", "grow", "writeData", "strictCheck", "writeMeta", "publishFreelist"))
    # publication guarded by "our header is the visible one": a different step
    guard = re.search(r"if written\.is_ok\(\) \|\| self\.db\.inner\.meta\(\)\?\.tx_id == self\.meta\.tx_id \{\s*let mut lock = self\.db\.inner\.freelist\.lock\(\)\?;\s*\*lock = freelist\.inner\.clone\(\);\s*\}", w)
    if guard and "beginHeaderAttempt" in commit:
        if not re.search(r"crate::verif::point\(\"commit\.after_publish\", self\.meta\.tx_id\);\s*written\s*\}", w) and not re.search(r"\}\s*written\s*\}", w):
            raise GenError("TxInner::write_data: the result of the header attempt is not what is returned")
        commit = ["publishIfVisible" if x == "publishFreelist" else x for x in commit]
    elif "beginHeaderAttempt" in commit:
        commit = [x for x in commit if x != "beginHeaderAttempt"]
    if "sync" not in commit:
        raise GenError("TxInner::write_data: no sync_all")
    # every file operation must propagate its error with `?`
    for rx, name in [(r"file\.write_all\(buf\)(\?)?", "data write"), (r"file\.write_all\(buf\.as_slice\(\)\)(\?)?", "header write"),
                     (r"file\.sync_all\(\)(\?)?", "sync"), (r"file\.seek\([^;]*\)(\?)?;", "seek"), (r"self\.db\.inner\.resize\([^;]*\)(\?)?;", "resize")]:
        for m in re.finditer(rx, w):
            if m.group(1) != "?":
                raise GenError("TxInner::write_data: %s does not propagate its error with `?`" % name)
    # header slot choice and data write order
    if not re.search(r"let meta_page_id = u64::from\(self\.meta\.meta_page == 0\);", w):
        raise GenError("TxInner::write_data: header slot is no longer `the other slot`")
    if not re.search(r"for \(page_id, \(ptr, size\)\) in freelist\.pages\.iter\(\) \{", w):
        raise GenError("TxInner::write_data: data pages are no longer written from freelist.pages in order")

    # ---- Tx::commit ---------------------------------------------------------------------------
    c = fn_body(tx, r"pub fn commit\(self\) -> Result<\(\)> \{", "Tx::commit")
    commit_outer = scan(c, [("guardWritable", r"if !self\.writable\(\) \{\s*return Err\(Error::ReadOnlyTx\)"),
                            ("rebalance", r"root\.rebalance\("), ("spill", r"root\.spill\("), ("writeDataCall", r"tx\.write_data\(")],
                        "Tx::commit", once=("guardWritable", "rebalance", "spill", "writeDataCall"))

    # ---- DBInner::resize ----------------------------------------------------------------------
    rz = fn_body(db, r"pub\(crate\) fn resize\(&self, file: &File, new_size: u64\) -> Result<Arc<Mmap>> \{", "DBInner::resize")
    resize = scan(rz, [("fallocate", r"file\.allocate\(new_size\)"), ("lockMapWrite", r"self\.mmap_lock\.write\(\)"),
                       ("lockData", r"self\.data\.lock\(\)"), ("mmap", r"mmap\(file"), ("storeMap", r"\*data = Arc::new\(mmap\)")],
                  "DBInner::resize", once=("fallocate", "lockMapWrite", "lockData", "mmap", "storeMap"))

    # ---- Drop for TxInner ---------------------------------------------------------------------
    dr = fn_body(tx, r"impl<'tx> Drop for TxInner<'tx> \{\s*fn drop\(&mut self\) \{", "Drop for TxInner")
    drop = scan(dr, [("lockReaders", r"self\.db\.inner\.open_ro_txs\.lock\(\)"), ("findReader", r"open_txs\.binary_search\(&self\.meta\.tx_id\)"),
                     ("removeReader", r"open_txs\.remove\(index\)")], "Drop for TxInner", once=("lockReaders", "findReader", "removeReader"))

    # ---- open ---------------------------------------------------------------------------------
    op = fn_body(db, r"pub fn open<P: AsRef<Path>>\(self, path: P\) -> Result<DB> \{", "OpenOptions::open")
    open_outer = scan(op, [("existsCheck", r"path\.exists\(\)"), ("initFile", r"init_file\("), ("openFile", r"open_file\(path, false"),
                           ("openOrCreate", r"open_file\(path, true"), ("dbOpen", r"DBInner::open\(")], "OpenOptions::open", once=("openOrCreate", "dbOpen"))
    io = fn_body(db, r"pub\(crate\) fn open\(\s*mut file: File,\s*pagesize: u64,\s*num_pages: usize,\s*flags: DBFlags,?\s*\) -> Result<DBInner> \{", "DBInner::open")
    open_inner = scan(io, [("flock", r"file\.lock_exclusive\(\)"), ("initIfEmpty", r"if file\.metadata\(\)\?\.len\(\) == 0 \{\s*init_file\(&mut file"),
                           ("mmap", r"mmap\(&file"), ("readMeta", r"db\.meta\(\)"),
                           ("loadFreelist", r"\.init\(free_pages\)")], "DBInner::open", once=("flock", "initIfEmpty", "mmap", "readMeta", "loadFreelist"))
    if len(re.findall(r"init_file\(", io)) != 1:
        raise GenError("DBInner::open: init_file must be called exactly once, under the `len() == 0` test")
    inf = fn_body(db, r"fn init_file\(file: &mut File, pagesize: u64, num_pages: usize\) -> Result<\(\)> \{", "init_file")
    init = scan(inf, [("createNew", r"open_file\("), ("fallocate", r"file\.allocate\("), ("writeInit", r"file\.write_all\("),
                      ("flush", r"file\.flush\(\)"), ("sync", r"file\.sync_all\(\)"), ("flock", r"lock_exclusive\(\)")],
                "init_file", once=("fallocate", "writeInit", "sync"))
    # the file is opened with `create`, never `create_new` (a second opener must get the same file and wait for the lock)
    of = re.findall(r"fn open_file<P: AsRef<Path>>\(path: P, create: bool, direct_write: bool\) -> Result<File> \{(.*?)\n\}", strip_comments(src("db.rs")), flags=re.S)
    if not of or any("create_new" in b_ or "open_options.create(true)" not in b_ for b_ in of):
        raise GenError("open_file: expected `open_options.create(true)` (not create_new) in every platform variant")

    # ---- DBInner::meta: validity before trust, strict tx_id comparison ---------------------------
    mt = fn_body(db, r"pub\(crate\) fn meta\(&self\) -> Result<Meta> \{", "DBInner::meta")
    if not re.search(r"if meta1\.tx_id > meta2\.tx_id \{\s*Some\(meta1\)\s*\} else \{\s*Some\(meta2\)", mt):
        raise GenError("DBInner::meta: header choice is no longer `meta1.tx_id > meta2.tx_id ? meta1 : meta2`")
    if len(re.findall(r"\.\$func\(\)\s*\.filter\(\|m\| m\.valid\(\)\)", mt)) != 2 or not re.search(r"match \(meta1, meta2\)", mt):
        raise GenError("DBInner::meta: both slots must be filtered by valid() before the choice")
    if "check_meta!(try_meta)" not in mt or "check_meta!(try_old_meta)" not in mt:
        raise GenError("DBInner::meta: slots must be read through try_meta / try_old_meta (page type checked, not asserted)")

    # the locks `meta()` itself takes (it is called inside the reader-list critical section of `Tx::new` and
    # inside the publication guard of `write_data`): part of the lock programs of the C09 model
    use = {("data", "lock"): "data", ("mmap_lock", "read"): "mapRead", ("mmap_lock", "write"): "mapWrite",
           ("freelist", "lock"): "freelist", ("open_ro_txs", "lock"): "readers", ("file", "lock"): "file"}
    meta_locks = []
    for m in re.finditer(r"\.(file|mmap_lock|open_ro_txs|data|freelist)\s*\.\s*(lock|read|write|try_lock|try_read|try_write)\(\)", mt):
        k = (m.group(1), m.group(2))
        if k not in use:
            raise GenError("DBInner::meta: lock use %s.%s() is not one the lock model knows" % k)
        meta_locks.append(use[k])

    def lst(xs):
        return "[" + ", ".join("." + x for x in xs) + "]"

    txt = ["/- GENERATED by /verif/tools/gen_steps.py from /repo/src (tx.rs, db.rs). Do not edit. -/",
           "import Jamm.Model.Steps", "", "namespace Jamm.Gen", "",
           "/-- `Tx::new`, in source order (the two lock kinds are one step; the two release branches one step) -/",
           "def beginSteps : List Jamm.BeginStep := %s" % lst(begin_steps), "",
           "/-- `TxInner::write_data`, in source order -/",
           "def commitSteps : List Jamm.CommitStep := %s" % lst(commit), "",
           "/-- `Tx::commit` -/",
           "def commitOuter : List Jamm.CommitOuterStep := %s" % lst(commit_outer), "",
           "/-- `DBInner::resize` -/",
           "def resizeSteps : List Jamm.ResizeStep := %s" % lst(resize), "",
           "/-- `Drop for TxInner` (readers only; the transaction lock is released when the fields drop) -/",
           "def dropSteps : List Jamm.DropStep := %s" % lst(drop), "",
           "/-- `OpenOptions::open` / `init_file` / `DBInner::open` -/",
           "def openOuter : List Jamm.OpenStep := %s" % lst(open_outer),
           "def initSteps : List Jamm.InitStep := %s" % lst(init),
           "def openInner : List Jamm.OpenInnerStep := %s" % lst(open_inner), "",
           "/-- the locks `DBInner::meta()` takes, in source order -/",
           "def metaLocks : List Jamm.LockUse := %s" % lst(meta_locks), "",
           "end Jamm.Gen", ""]
    check_pins("--pin" in sys.argv)
    write_if_changed("Steps.lean", "\n".join(txt))


MUTATOR_CALLS = [r"\bb\.put\(", r"\bb\.delete\(", r"\bb\.create_bucket\(", r"\bb\.get_or_create_bucket\(", r"\bb\.delete_bucket\(",
                 r"\broot\.create_bucket\(", r"\broot\.get_or_create_bucket\(", r"\broot\.delete_bucket\(", r"\broot\.rebalance\(",
                 r"\broot\.spill\(", r"\.write_data\("]
GUARDS = [r"^\s*if !self\.writable \{\s*return Err\(Error::ReadOnlyTx\);\s*\}",
          r"^\s*let tx = self\.inner\.borrow\(\);\s*if !tx\.lock\.writable\(\) \{\s*return Err\(Error::ReadOnlyTx\);\s*\}",
          r"^\s*if !self\.writable\(\) \{\s*return Err\(Error::ReadOnlyTx\);\s*\}"]
FILE_MUTATIONS = [r"\b(?!buf\b)\w+\.write_all\(", r"\bfile\.seek\(", r"\b\w+\.allocate\(new_size\)|\bfile\.allocate\(", r"\.set_len\(", r"\.sync_all\(", r"\.sync_data\(", r"\bfile\.write\(",
                  r"\.write_all_at\(", r"\.write_at\(", r"\.write_vectored\(", r"\bfs::write\(", r"\bFile::create\(", r"\.truncate\(true\)", r"\bMmapMut\b", r"\.map_mut\(",
                  r"\bfs::rename\(", r"\bfs::copy\(", r"\bfs::remove_file\(", r"\bpwrite\w*\(", r"\bftruncate\w*\(", r"\.set_permissions\(", r"\blibc::write\("]
# calls of the inner mutators (tree edits, rebalance / spill, page release and allocation, the commit writer)
INNER_MUTATORS = r"\.(put|delete|create_bucket|get_or_create_bucket|delete_bucket|rebalance|spill|write_data|insert_data|insert_branch|insert_child|merge|split|free|allocate)\("


def all_fns(text):
    """(name, body) for every fn in the text (nested ones included)"""
    out = []
    for m in re.finditer(r"\bfn\s+(\w+)\s*(<[^>{]*(?:<[^>]*>[^>{]*)*>)?\s*\(", text):
        j = text.find("{", m.end())
        semi = text.find(";", m.end())
        if j < 0 or (0 <= semi < j):
            continue
        depth = 0
        k = j
        while k < len(text):
            if text[k] == "{":
                depth += 1
            elif text[k] == "}":
                depth -= 1
                if depth == 0:
                    break
            k += 1
        out.append((m.group(1), text[j + 1 : k], m.start()))
    return out


def impl_block(text, rx, what):
    m = re.search(rx, text)
    if not m:
        raise GenError("impl block not found: " + what)
    j = text.index("{", m.end() - 1)
    depth = 0
    k = j
    while k < len(text):
        if text[k] == "{":
            depth += 1
        elif text[k] == "}":
            depth -= 1
            if depth == 0:
                return text[j + 1 : k]
        k += 1
    raise GenError("unbalanced impl " + what)


def gen_sites():
    files = sorted(f for f in os.listdir(os.path.join("/repo", "src")) if f.endswith(".rs") and f != "verif.rs")
    for need in ("bucket.rs", "tx.rs", "cursor.rs", "db.rs", "node.rs", "freelist.rs", "page.rs"):
        if need not in files:
            raise GenError("source file %s not found" % need)
    api = []
    bucket = strip_comments(no_test(src("bucket.rs")))
    tx = strip_comments(no_test(src("tx.rs")))
    for owner, text, rx in [("Bucket", bucket, r"impl<'b, 'tx> Bucket<'b, 'tx> \{"), ("Tx", tx, r"impl<'tx> Tx<'tx> \{")]:
        blk = impl_block(text, rx, owner)
        for m in re.finditer(r"\n    pub fn (\w+)", blk):
            name = m.group(1)
            body = fn_body(blk[m.start():], r"pub fn %s\b[^{]*\{" % name, "%s::%s" % (owner, name))
            mutates = any(re.search(r, body) for r in MUTATOR_CALLS)
            guarded = any(re.match(g, body, flags=re.S) for g in GUARDS)
            api.append((owner + "::" + name, mutates, guarded))
    if len(api) < 15:
        raise GenError("public API scan found only %d methods" % len(api))
    file_mut = []
    fl_writers = []
    mut_callers = []
    for f in files:
        text = strip_comments(no_test(src(f)))
        fns = all_fns(text)
        for name, body, _ in fns:
            # attribute a marker to the innermost function only
            inner = [b for n, b, _ in fns if b != body and b in body]
            own = body
            for b in inner:
                own = own.replace(b, "")
            if any(re.search(r, own) for r in FILE_MUTATIONS):
                file_mut.append("%s:%s" % (f, name))
            if re.search(r"\*lock = ", own) or re.search(r"freelist\.lock\(\)\?\.init\(", own):
                fl_writers.append("%s:%s" % (f, name))
            if re.search(INNER_MUTATORS, own):
                mut_callers.append("%s:%s" % (f, name))
    # every acquisition of one of the five locks of DBInner, by function, with multiplicity and in source order:
    # the lock model (Jamm/Model/LockOrder.lean) maps STEPS to lock actions by hand; this table pins that no
    # function takes a lock the mapping does not know about (e.g. `meta()` taking the map read lock as well)
    lock_sites = []
    for f in files:
        text = strip_comments(no_test(src(f)))
        fns = all_fns(text)
        for name, body, _ in fns:
            inner = [b for n, b, _ in fns if b != body and b in body]
            own = body
            for b in inner:
                own = own.replace(b, "")
            for m in re.finditer(r"\.(file|mmap_lock|open_ro_txs|data|freelist)\s*\.\s*(lock|read|write|try_lock|try_read|try_write)\(\)", own):
                lock_sites.append("%s:%s:%s.%s" % (f, name, m.group(1), m.group(2)))
    file_mut = sorted(set(file_mut))
    fl_writers = sorted(set(fl_writers))
    mut_callers = sorted(set(mut_callers))

    # every place a handle's `writable` flag is set: (file:function, expression)
    ctors = []
    for f in ["bucket.rs", "tx.rs", "cursor.rs"]:
        text = strip_comments(no_test(src(f)))
        fns = all_fns(text)
        for name, body, _ in fns:
            inner = [b for n, b, _ in fns if b != body and b in body]
            own = body
            for b in inner:
                own = own.replace(b, "")
            for m in re.finditer(r"\bwritable: ([^,\n]+),", own):
                ctors.append(("%s:%s" % (f, name), m.group(1).strip()))
            for m in re.finditer(r"\n\s+writable,\n", own):
                lm = re.search(r"let writable = ([^;]+);", own)
                ctors.append(("%s:%s" % (f, name), lm.group(1).strip() if lm else "?"))
    if len(ctors) < 8:
        raise GenError("found only %d places where a handle's writable flag is set" % len(ctors))

    def q(s):
        return '"%s"' % s

    txt = ["/- GENERATED by /verif/tools/gen_steps.py from /repo/src. Do not edit. -/",
           "import Jamm.Model.Steps", "", "namespace Jamm.Gen", "",
           "/-- every place where the `writable` flag of a handle (Bucket, Cursor, Buckets) is set: (function, expression) -/",
           "def writableSources : List (String × String) := [%s]" % ", ".join("(%s, %s)" % (q(a), q(b)) for a, b in ctors), "",
           "/-- every `pub fn` of `Bucket` and `Tx`: (name, calls an inner mutator / commit, starts with the read-only guard) -/",
           "def api : List Jamm.ApiFn := ["]
    txt.append(",\n".join("  { name := %s, mutates := %s, guarded := %s }" % (q(n), "true" if m else "false", "true" if g else "false") for n, m, g in api))
    txt += ["]", "",
            "/-- functions (outside tests) that write, seek, extend or sync a file -/",
            "def fileMutators : List String := [%s]" % ", ".join(q(x) for x in file_mut), "",
            "/-- every function (any file, any impl: Cursor, Range, Buckets, DB, ... included) that calls an inner mutator: tree edits, rebalance / spill, page release / allocation, the commit writer -/",
            "def mutatorCallSites : List String := [%s]" % ", ".join(q(x) for x in mut_callers), "",
            "/-- every acquisition of one of the five locks (file, mmap_lock, open_ro_txs, data, freelist): file:function:lock.mode, in source order -/",
            "def lockSites : List String := [%s]" % ", ".join(q(x) for x in lock_sites), "",
            "/-- functions that assign the shared free list -/",
            "def sharedFreelistWriters : List String := [%s]" % ", ".join(q(x) for x in fl_writers), "",
            "end Jamm.Gen", ""]
    write_if_changed("Sites.lean", "\n".join(txt))


def main():
    gen_steps()
    gen_sites()


if __name__ == "__main__":
    try:
        main()
    except GenError as e:
        print("GENERATION FAILED")
        print("translator: " + str(e))
        sys.exit(1)
