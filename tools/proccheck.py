"""Process-exclusion stream (C13): worker processes open the same database file; the LD_PRELOAD shim
parks a worker inside a chosen libc call until released, so orderings at system-call boundaries are
forced, not timed.  Each worker logs monotonic timestamps; the Lean driver checks the observations."""
import os
import subprocess
import time

import crashcheck
import vlib


class Scenario:
    def __init__(self, scratch, name, existing, pagesize=1024):
        self.dir = os.path.join(scratch.dbdir, "proc-" + name)
        os.makedirs(self.dir, exist_ok=True)
        self.db = os.path.join(self.dir, "jverif-proc.db")
        self.log = os.path.join(self.dir, "obs.log")
        self.name = name
        self.pagesize = pagesize
        self.procs = {}
        self.fifos = {}
        self.started = []
        if existing:
            # created by an undisturbed worker first
            self.start("P0", hold=0)
            self.wait_all()

    def start(self, wid, park=None, hold=0, delay=0, grow=0, signals=False):
        env = dict(vlib.ENV)
        if signals:
            env["JH_SIGNALS"] = "1"
        env["LD_PRELOAD"] = crashcheck.SHIM
        env["JSHIM_PATH"] = "jverif-proc.db"
        env["JSHIM_LOG"] = "/dev/null"
        self.started.append(wid)
        extra = []
        if park and len(park) > 2:
            # parked on the fifo of another worker: one release wakes both at the same instant
            self.fifos[wid] = self.fifos[park[2]]
            env["JSHIM_PARK"] = "%s:%d:%s" % (park[0], park[1], self.fifos[wid])
        elif park:
            fifo = os.path.join(self.dir, "fifo-" + wid)
            os.mkfifo(fifo)
            self.fifos[wid] = fifo
            if park[0] == "inside":
                extra = [fifo]  # the worker itself waits once `open` has returned (the lock call is a raw system call the shim cannot see)
            else:
                env["JSHIM_PARK"] = "%s:%d:%s" % (park[0], park[1], fifo)
        self.procs[wid] = subprocess.Popen([vlib.JHARNESS, "proc", self.db, wid, str(self.pagesize), self.log, str(hold), str(delay), str(grow)] + extra, env=env,
                                           stdout=subprocess.DEVNULL, stderr=subprocess.DEVNULL)

    def wait_parked(self, wid, timeout=10):
        at = self.fifos[wid] + ".at"
        t0 = time.time()
        while not os.path.exists(at):
            if time.time() - t0 > timeout or self.procs[wid].poll() is not None:
                return False
            time.sleep(0.005)
        return True

    def release(self, wid):
        fifo = self.fifos.get(wid)
        if not fifo:
            return
        t0 = time.time()
        while time.time() - t0 < 10:
            try:
                fd = os.open(fifo, os.O_WRONLY | os.O_NONBLOCK)
                os.close(fd)
                return
            except OSError:
                if self.procs[wid].poll() is not None:
                    return
                time.sleep(0.005)

    def wait_all(self, timeout=30):
        t0 = time.time()
        hung = []
        for wid, p in self.procs.items():
            try:
                p.wait(timeout=max(0.1, timeout - (time.time() - t0)))
            except subprocess.TimeoutExpired:
                p.kill()
                hung.append(wid)
        self.procs = {}
        return hung

    def wait_logged(self, wid, what, timeout=10):
        t0 = time.time()
        while time.time() - t0 < timeout:
            if any(l.startswith("%s %s " % (wid, what)) for l in self.observations()):
                return True
            if self.procs[wid].poll() is not None:
                return False
            time.sleep(0.005)
        return False

    def observations(self):
        return [l.rstrip("\n") for l in open(self.log)] if os.path.exists(self.log) else []


def scenarios(scratch, quick, r):
    """yields (name, kind, lines); the header line names the workers that were started (`workers=`)"""
    for name, kind, lines, started in _scenarios(scratch, quick, r):
        lines = list(lines)
        lines[0] = lines[0] + " workers=" + ",".join(started)
        yield name, kind, lines


def _scenarios(scratch, quick, r):
    """yields (name, kind, lines) where kind is 'existing' or 'create'"""
    crashcheck.ensure_shim()
    # E1..: an existing file; the first opener is parked at a call inside / at the end of its stay
    for call, nth in [("close", 1), ("mmap", 1), ("fsync", 1), ("write", 1), ("fsync", 2)]:
        for nlate in (1, 2):
            sc = Scenario(scratch, "e-%s%d-%d" % (call, nth, nlate), existing=True)
            sc.start("P1", park=(call, nth))
            parked = sc.wait_parked("P1")
            for j in range(nlate):
                sc.start("P%d" % (2 + j), hold=r.randrange(0, 20))
            time.sleep(0.12)
            sc.release("P1")
            hung = sc.wait_all()
            yield (sc.name, "existing", ["scenario %s existing parked=%s hung=%s" % (sc.name, parked, ",".join(hung) or "-")] + sc.observations(), [w for w in sc.started if w != 'P0'])
    # G: the holder's commit grows the file while a late opener is already waiting inside `open`
    # (parked once `open` has returned the holder has not grown the file yet; at write / fsync it has)
    for call, nth in [("inside", 1), ("write", 1), ("fsync", 1)]:
        sc = Scenario(scratch, "g-%s%d" % (call, nth), existing=True)
        sc.start("P1", park=(call, nth), grow=300)
        parked = sc.wait_parked("P1")
        sc.start("P2", hold=2)
        time.sleep(0.15)
        sc.release("P1")
        hung = sc.wait_all(timeout=60)
        yield (sc.name, "existing", ["scenario %s existing parked=%s hung=%s" % (sc.name, parked, ",".join(hung) or "-")] + sc.observations(), [w for w in sc.started if w != 'P0'])
    # S: a handled, non-restarting signal reaches an opener that waits for the lock (the lock call returns EINTR):
    # it must keep waiting or be refused, never be let in
    for k in range(1 if quick else 4):
        sc = Scenario(scratch, "s-signal%d" % k, existing=True)
        sc.start("P1", hold=900 + 100 * k)
        inside = sc.wait_logged("P1", "worked")
        sc.start("P2", hold=2, signals=True)
        # (the handler is installed before `open-called` is logged: a signal sent earlier would end the process)
        sc.wait_logged("P2", "open-called")
        time.sleep(0.08)
        import signal
        for _ in range(2 + k):
            if sc.procs["P2"].poll() is None:
                sc.procs["P2"].send_signal(signal.SIGUSR1)
            time.sleep(0.04)
        hung = sc.wait_all()
        yield (sc.name, "existing", ["scenario %s existing parked=%s hung=%s" % (sc.name, inside, ",".join(hung) or "-")] + sc.observations(), [w for w in sc.started if w != 'P0'])
    # random start offsets and hold times, no parking
    for k in range(3 if quick else 20):
        sc = Scenario(scratch, "e-rand%d" % k, existing=True)
        for j in range(3):
            sc.start("P%d" % (1 + j), hold=r.randrange(0, 40), delay=r.randrange(0, 30))
        hung = sc.wait_all()
        yield (sc.name, "existing", ["scenario %s existing parked=- hung=%s" % (sc.name, ",".join(hung) or "-")] + sc.observations(), [w for w in sc.started if w != 'P0'])
    # N: the file does not exist yet; the creator is parked between create and lock
    for call, nth in [("open", 1), ("write", 1), ("fsync", 1)]:
        sc = Scenario(scratch, "n-%s%d" % (call, nth), existing=False)
        sc.start("P1", park=(call, nth))
        parked = sc.wait_parked("P1")
        sc.start("P2", hold=5)
        time.sleep(0.12)
        sc.release("P1")
        hung = sc.wait_all()
        yield (sc.name, "create", ["scenario %s create parked=%s@%s%d hung=%s" % (sc.name, parked, call, nth, ",".join(hung) or "-")] + sc.observations(), [w for w in sc.started if w != 'P0'])
    # B: two creators both stopped right after the file came into existence (still empty, nobody holds the lock),
    # then released together: whoever loses the lock must find the file initialised by the winner and keep it
    for k in range(4 if quick else 16):
        sc = Scenario(scratch, "n-both-open%d" % k, existing=False)
        sc.start("P1", park=("open", 1), hold=r.randrange(0, 5))
        parked = sc.wait_parked("P1")
        sc.start("P2", park=("open", 1, "P1"), hold=r.randrange(0, 5))
        time.sleep(0.15)
        sc.release("P1")
        # (a worker that reached its parking point only after that release — a loaded machine — is released by one
        # of the following attempts: a writer can open the fifo only while a reader is blocked on it)
        t_rel = time.time()
        while time.time() - t_rel < 8 and any(p_.poll() is None for p_ in sc.procs.values()):
            try:
                fd_ = os.open(sc.fifos["P1"], os.O_WRONLY | os.O_NONBLOCK)
                os.close(fd_)
            except OSError:
                pass
            time.sleep(0.02)
        hung = sc.wait_all()
        yield (sc.name, "create", ["scenario %s create parked=%s@open1x2 hung=%s" % (sc.name, parked, ",".join(hung) or "-")] + sc.observations(), [w for w in sc.started if w != 'P0'])
    # C: a creator that stopped between taking the lock and initialising the file (played by this orchestrator: it
    # creates the empty file and holds the lock — the lock call is a raw system call, no worker can be parked there);
    # a second opener arrives and waits; the "creator" then initialises the file (the bytes of a database in which a
    # worker PX has committed its marker) and closes.  The waiting opener must find that database, not start over.
    import fcntl
    for k in range(1 if quick else 3):
        sc = Scenario(scratch, "n-stalled-creator%d" % k, existing=False)
        src = os.path.join(sc.dir, "jverif-proc-src.db")
        env0 = dict(vlib.ENV)
        subprocess.run([vlib.JHARNESS, "proc", src, "PX", str(sc.pagesize), os.path.join(sc.dir, "src.log"), "0", "0", "0"], env=env0,
                       stdout=subprocess.DEVNULL, stderr=subprocess.DEVNULL, timeout=60)
        image = open(src, "rb").read() if os.path.exists(src) else b""
        fd = os.open(sc.db, os.O_RDWR | os.O_CREAT, 0o644)
        fcntl.flock(fd, fcntl.LOCK_EX)
        with open(sc.log, "a") as lg:
            lg.write("PX open-called %d\nPX open-returned %d\n" % (time.monotonic_ns(), time.monotonic_ns()))
        sc.start("P2", hold=2 + k)
        sc.wait_logged("P2", "open-called")
        time.sleep(0.15)
        os.pwrite(fd, image, 0)
        os.fsync(fd)
        with open(sc.log, "a") as lg:
            lg.write("PX worked %d seen=[] commit=%s\nPX about-to-close %d\n" % (time.monotonic_ns(), "true" if image else "false", time.monotonic_ns()))
        os.close(fd)
        hung = sc.wait_all()
        yield (sc.name, "create", ["scenario %s create parked=%s@stalled-creator hung=%s" % (sc.name, bool(image), ",".join(hung) or "-")] + sc.observations(), [w for w in sc.started if w != 'P0'])
    # R: several processes race to create the same missing file (no parking: the window between "file exists, still
    # empty" and "initialised" is closed by the lock alone; start offsets of 0-2 ms)
    for k in range(10 if quick else 60):
        sc = Scenario(scratch, "n-race%d" % k, existing=False)
        for j in range(4):
            sc.start("P%d" % (1 + j), hold=r.randrange(0, 3), delay=r.randrange(0, 3))
        hung = sc.wait_all()
        yield (sc.name, "create", ["scenario %s create parked=- hung=%s" % (sc.name, ",".join(hung) or "-")] + sc.observations(), [w for w in sc.started if w != 'P0'])
    # H: the holder is the process that created the file; it is fully open (it has committed) when the
    # second opener arrives
    for k, hold in enumerate([150, 400] if quick else [50, 150, 400, 800]):
        sc = Scenario(scratch, "n-held%d" % k, existing=False)
        sc.start("P1", hold=hold)
        inside = sc.wait_logged("P1", "worked")
        sc.start("P2", hold=2)
        hung = sc.wait_all()
        yield (sc.name, "create", ["scenario %s create parked=%s@held hung=%s" % (sc.name, inside, ",".join(hung) or "-")] + sc.observations(), [w for w in sc.started if w != 'P0'])
