#!/usr/bin/env python3
"""writes tools/expected_theorems.json from the evidence files of the last clean run: the names of the theorems in
each Jamm.Props.<id> namespace.  Run deliberately (after adding theorems); the checks then treat a missing name as a
broken obligation."""
import glob, json, os
root = os.path.dirname(os.path.dirname(os.path.abspath(__file__)))
out = {}
for f in sorted(glob.glob(os.path.join(root, "evidence", "C*.json"))):
    e = json.load(open(f))
    out[os.path.basename(f)[:-5]] = sorted(t["name"] for t in e["coverage"].get("theorems", []))
json.dump(out, open(os.path.join(root, "tools", "expected_theorems.json"), "w"), indent=1)
print({k: len(v) for k, v in out.items()})
