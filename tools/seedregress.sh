#!/bin/bash
# re-runs every stored seed against the check(s) recorded as detecting it (first detecting check of its own property, else first listed)
cd /verif
# detection only: the replay need not be minimal here
export JAMM_SHRINK_RUNS=8
for d in seeded/*/; do
  id=$(basename $d)
  prop=$(python3 -c "import json; m=json.load(open('$d/meta.json')); d=[x['check'].split()[1] for x in m.get('detected_by',[])]; p=m['property']; print(p if (p in d or not d) else d[0])")
  out=$(tools/run_seed.sh $id $prop 2>&1 | grep -E "SEED|VIOLATION" | head -2 | cut -c1-170 | tr '\n' ' ')
  echo "$out"
done
