#!/bin/bash
# runs every claimed check (quick tier) on the current tree; prints one line per check
cd /verif
for id in $(python3 -c "import json; print(' '.join(c['property_id'] for c in json.load(open('MANIFEST.json'))['checks']))"); do
  out=$(./check $id --tier ${1:-quick} 2>/dev/null | grep -E "^(VIOLATION|OK|KNOWN)" | head -3 | cut -c1-160 | tr '\n' ' ')
  echo "$id: $out"
done
