#!/usr/bin/env python3
"""Regenerates /verif/MANIFEST.json from the table below (kept next to the code so it stays valid)."""
import json
import os
import subprocess

ROOT = "/verif"

COMMON_NOTE = "Trusted: Lean kernel + {propext, Classical.choice, Quot.sound}; Jamm/Model/Spec.lean and the statements in Jamm/Props; harness + driver glue; translators (tools/gen_all.py). Assumes no u64 wrap-around. "

CLAIMED = {
    "C01": {
        "category": "proof",
        "technique": "Lean 4 refinement proofs, layer by layer: API operations over per-bucket B+trees refine the reference nested ordered map for every operation sequence at every nesting depth; lookup / cursor / edits on every well-formed tree; the commit model (any rebalance steps + spill, any page size) preserves contents and the tree invariant; a tree written to pages reads back as the same tree. Each layer's model is tied to the code on every run: call outcomes, exact overlay trees after edits, exact committed trees, freed pages, bytes of every page, decoded file contents",
        "text": "Proved in Lean (Jamm/Props/C01.lean, 24 theorems), for all keys, values, trees, operation sequences and page sizes: (1) the reference is an ordered map; (2) the database as the code holds it — one B+tree per bucket, put / get / delete / get-create-delete bucket with the control flow and error precedence of bucket.rs over the tree operations — returns exactly the reference's values and error kinds and has the reference's contents, counters and bucket structure after any sequence of operations at any nesting depth, all trees staying well-formed (api_*_refines, api_history_refines); (3) on every well-formed tree point lookup, full cursor scan (ascending) and any sequence of leaf edits equal the reference's; (4) the model of one bucket's commit — replay of ANY list of rebalance steps, touches of nested-bucket headers, then spill at any page size — leaves the contents unchanged and keeps the tree invariant (separators bound subtrees, no routing gap, uniform depth), which implies well-formedness, so (3) applies at every point of every history; a commit that keeps each bucket's contents is invisible in the reference (api_commit_invisible); (5) a tree — and a whole database, every bucket at every nesting depth — written node by node to pages is read back from the root page as exactly the same tree / database and disturbs nothing else (what a later transaction or a reopen reads is what was written); the state read from a file the checker accepts is an API-layer database with only well-formed trees, so (2)–(4) apply to it. The layers are proved separately; their composition into one end-to-end theorem about the whole system (begin / commit / reopen through the header choice of C12 and the crash model of C02) is by the ties, not by a single theorem. Ties, checked on every run by the Lean driver on the real code built from the working tree: every call outcome and every post-commit dump (same process and after reopen) against the reference; after every edit the real overlay tree against the model's (overlay_prediction_is_exact, C07); for every commit the real committed tree of every bucket against the commit model's prediction, the freed pages and new-page count against the model's, every tree / header / free-list page byte for byte against the model writers, and the decoded file through the verified checker (C05). Histories: random profiles (deep, tiny, huge, empty and prefix keys, multi-page values, nested buckets, rollbacks, reopen, misuse of deleted handles, six argument types), all contiguous delete ranges and keep-windows over 1/2/3-level trees with and without nested buckets, growth across several extension steps.",
        "design_ref": "DESIGN.md §5 C01, §3",
        "note": COMMON_NOTE + "Hand-written models tied by correspondence: the API control flow (Model/TreeDB.lean), tree operations, commit, page writers. The order in which rebalance visits nodes is read from the run (the theorems hold for every order). Handles, iterator adaptors and the panic on a deleted-bucket handle are specified in the driver's handle table, not in Lean theorems.",
    },
    "C05": {
        "category": "other",
        "technique": "independent file checker written in Lean (decoder + WF + page accounting), proved sound in Lean, executed on the real file bytes after every commit; plus DB::check and contents comparison with the specification",
        "text": "After every commit of every generated history the harness snapshots the file and the Lean driver decodes it with the layout regenerated from /repo/src, chooses the header as the code does, unfolds every bucket tree, evaluates wfb (keys strictly ascending within and across pages, separators bound their subtrees, every element inside its run), and checks that reached runs + free-list run + free-list entries are exactly pages 2..numPages-1 with no page twice; the decoded contents must equal the specification's and DB::check must agree. Proved in Lean: wfb is sound for WF (so Layer Q theorems apply to the real file), the accounting comparison is exact (no duplicate, none missing, none out of range); the model of one bucket's commit keeps 'keys strictly ascending, separators bound their subtrees' for every tree, every list of rebalance steps and every page size (commit_keeps_tree_wellformed), and the run checks on every commit that this model predicts the shape of the tree the code wrote and that the invariant's executable forms (proved sound) hold on the real overlay before and the real tree after. Also proved: the whole executable check is sound (acceptance implies, for every bucket at every depth, a well-formed tree linked to its parent's entry, and exact page accounting) and the database's own check (modelled as implCheck, tied to the real DB::check on committed files and on images with damaged tree pages) accepts whatever it accepts; decodePage after writeLeafPage / writeBranchPage is the identity on every node that fits its run, and the writer changes no other byte; the run checks that every tree page of the real file holds exactly the bytes this model writer produces. Pages: the model's commit provably frees only pages of the overlay, each once, keeps only untouched nodes and requests non-empty runs (the client conditions of the release protocol), and along every history of such writers every page is in exactly one of reachable / free / pending (coverage + disjointness); the run checks on every commit that the freed page set and the number of new pages are exactly the model's. Not proved: that the real allocation sequence is the model's request sequence in order (tied by exact free-list state comparison instead).",
        "design_ref": "DESIGN.md §5 C05, §3.2, §3.6",
        "note": COMMON_NOTE + "The checker shares no code with jammdb; bytes outside defined ranges (padding, stale tails) are unconstrained by design.",
    },
    "C07": {
        "category": "proof",
        "technique": "Lean 4 theorems: any sequence of in-transaction leaf edits on a well-formed tree refines the reference map, and lookup/scan/seek/range on the edited tree (emptied leaves included) return the reference's answers; model tied to the code by read-after-every-operation differential runs",
        "text": "Proved for every well-formed starting tree, every sequence of puts and deletes and every key / bound pair (Jamm/Props/C07.lean): contents = reference contents after the same operations, tree stays well-formed, point lookup, full scan, seek and all nine kinds of range scan on the edited tree equal the reference. The model is the value-level overlay (committed tree with edited, possibly emptied leaves; branch entries untouched before commit). Tie: histories in read-after-every-op mode (scan, seek, range, get, buckets, kv_pairs, next_int after each mutation; directed emptying of each leaf and inserts at leaf boundaries) run on the real code and compared with the Lean specification.",
        "design_ref": "DESIGN.md §5 C07, §3.5",
        "note": COMMON_NOTE + "Bucket creation/deletion inside the transaction are leaf edits of the parent plus cache bookkeeping; the cache is modelled as part of the nested value (unobservable difference). A cursor kept across a mutation is unspecified and not generated.",
    },
    "C08": {
        "category": "proof",
        "technique": "Lean 4 theorems about the cursor stack machine (enumeration, after-the-end, seek, nine range bound kinds, filters, binary-search slot) on every tree; model tied to the code by differential query batteries on committed and mid-transaction buckets",
        "text": "Proved for all trees / keys / bounds (Jamm/Props/C08.lean): a fresh cursor yields every entry exactly once in order and next() after the end keeps returning none (no ordering assumption needed); on well-formed trees seek reports presence and starts at the key or an immediate neighbour with every later entry following; Range yields exactly Spec.range for all 3x3 bound kinds incl. reversed / out-of-range; buckets()/kv_pairs() are filters. The model mirrors cursor.rs after the three fix: commits (D5, D6, D7). Tie: query batteries (every present key, gaps, below min, above max, leaf/branch boundaries x bound kinds, extra next() after exhaustion) on empty, single-leaf and multi-level buckets, committed and mid-transaction.",
        "design_ref": "DESIGN.md §5 C08, §3.4",
        "note": COMMON_NOTE + "Rust's binary_search_by_key is assumed correct on strictly ascending input (the model uses its specification, not the halving loop).",
    },
    "C03": {
        "category": "proof",
        "technique": "Lean 4 invariant proof over all sequential reader/writer histories (release protocol + copy-on-write clients) + exact correspondence of the real in-memory free list with the model after every commit",
        "text": "Proved for every history of protocol-abiding events, any number of readers opened/closed in any order (Jamm/Props/C03.lean): the accounting invariant holds in every reachable state; no committing writer writes a page of an open reader's snapshot; no such page is ever in the shared free set; a reader's snapshot is a value. Writers are abstract copy-on-write clients (free pages of the snapshot they started from, write only pages they allocated). Tie, checked after every commit: the writer's freed/allocated page sets are extracted from consecutive real files by the Lean decoder, the model applies its own release rule (pending older than the oldest registered reader), and the real in-memory free list read through the hook accessor must equal the model's exactly; allocated pages must have been free or fresh in the model; Sys.invB is evaluated on every real state; every open reader is re-dumped in full after every step and compared with the specification.",
        "design_ref": "DESIGN.md §5 C03, §3.3, §3.8",
        "note": COMMON_NOTE + "That the real commit is a copy-on-write client (frees only reachable pages, writes only allocated ones) is checked per commit on real files, not proved (Layer C). Files are pre-sized so no commit grows the file while a reader is open on the harness thread (documented self-deadlock).",
    },
    "C06": {
        "category": "proof",
        "technique": "Lean 4 theorems (every erroring specification call is a no-op; drop is a no-op) + obligations decided on tables regenerated from /repo/src (mutators guarded, API classified, only write_data/resize/init_file touch the file, shared free list assigned only at commit) + file-hash correspondence",
        "text": "Proved (Jamm/Props/C06.lean): every specification operation that returns an error leaves the state unchanged; dropping a transaction leaves the world unchanged. Decided on every run over tables the translator regenerates from the source: every public Bucket/Tx method that can mutate starts with the read-only guard; every public method appears in the classification (a new method breaks the obligation until classified); the only functions that write/seek/extend/sync a file are write_data, resize, init_file; the shared free list is assigned only in write_data and at open; commit refuses a read-only transaction first. Tie: histories with large rolled-back transactions (incl. bucket deletes), every mutator through read-only handles, reopen; the real file is hashed before/after and must be byte-identical between commits; later commits are compared with the specification as if the abandoned work never existed.",
        "design_ref": "DESIGN.md §5 C06",
        "note": COMMON_NOTE + "Translator is pattern-based (brace matching + marker tables); in-memory caches that change on failed/read-only calls are unobservable and outside the statement.",
    },
    "C10": {
        "category": "proof",
        "technique": "Lean 4 theorems about the allocator (first-fit soundness/completeness, exact allocation/release, pigeonhole plateau bound, release-all without readers, invariant along all histories) + exact correspondence of the real in-memory free list on soak workloads",
        "text": "Proved for all free sets / request sizes / histories (Jamm/Props/C10.lean): first fit returns a run of free pages and fails only when none exists; the file is extended only then, and only while numPages <= (k-1)(n+1)+n+2 with n the number of non-free pages (pigeonhole over maximal free runs), so file growth is bounded by live+pending data independently of the number of transactions; release moves exactly the pages freed by transactions older than the bound; with no reader open the next writer releases everything; pages an open reader needs are retained (C03). Tie: soak workloads (fixed/variable-size overwrite, delete, bucket delete, periodic reopen, a reader held for a stretch): after every commit the real free list (hook accessor) must equal the model's, the persisted list must be free ∪ pending, and the file's page mark is read from the real header by the Lean decoder.",
        "design_ref": "DESIGN.md §5 C10, §3.3",
        "note": COMMON_NOTE + "The bound is what first fit guarantees, not the tightest plateau. On reopen everything listed becomes free (checked).",
    },
    "C16": {
        "category": "proof",
        "technique": "Lean 4 theorems: behaviour is a function of the logical contents only (two databases with the same contents in differently shaped trees answer every call alike, keep the same contents after any operation sequence and after commits under any page size); strict mode's check accepts every file the independent checker accepts; growth arithmetic; regenerated tunables valid — tied by differential replay of the same histories under the configuration product",
        "text": "Proved (Jamm/Props/C16.lean): same_contents_same_answers / same_contents_preserved / same_contents_after_commits — over the API-layer model (one B+tree per bucket), two databases whose trees differ in shape (as they do under different page sizes or initial page counts) but hold the same logical contents return the same value or error kind for every call and hold the same contents after any sequence of operations and after commits, as long as each commit keeps every bucket's contents, which commit_contents_independent_of_pagesize / commit_invariant_any_pagesize prove of the commit model for every page size with the regenerated tunables; strict_mode_never_rejects_a_checked_file — the database's own check (model implCheck, tied to the real DB::check) accepts every file the independent checker accepts, and the run establishes the latter for every commit; growth_covers / growth_whole_steps / grow_before_writes — the computed extension always covers the required size in whole steps and precedes the page writes; params_valid, accepted_pagesizes_aligned on the regenerated constants. mmap_populate and direct_writes only select OS flags. Tie: the same histories are replayed under page sizes {1024,1032,2048,3000,4096,5000,16384,65536,1MiB} x page counts {4,32,1000} x strict x populate (quick: 14 combinations covering every value; thorough: full product) and compared with the single specification run; strict mode must never reject; growth runs cross several 8 MiB extension steps including a single commit that needs more than one step; odd page sizes (refused since the repair of D14) are probed in their own processes.",
        "design_ref": "DESIGN.md §5 C16",
        "note": COMMON_NOTE + "The layers are composed by the ties, not by one end-to-end theorem (see C01). Page sizes that are not a multiple of 8 were defect D14 (repaired: refused by the builder).",
    },
    "C12": {
        "category": "proof",
        "technique": "Lean 4 theorems on header choice and checksum (FNV-1a step bijection => any single damaged hashed byte is detected; choice is one of the two slots; fallback; previous snapshot intact) + exhaustive-by-offset damaged-image correspondence against the real open",
        "text": "Proved (Jamm/Props/C12.lean): a slot is trusted only with META type byte and verifying checksum; the chosen header is always exactly one of the two slots (never a mix); with one slot invalid the other is chosen, with both valid the higher transaction id; the checksum covers every meaningful field in the regenerated order; changing exactly one byte of the hashed image always changes the checksum (each FNV-1a step is a bijection of UInt64, explicit inverse of the prime) so one damaged hashed byte or a damaged stored checksum invalidates the record with no collision assumption; after a commit no page of the replaced snapshot is free or written, so the fallback state is complete. Tie: after every commit count 0..n, for either slot, every offset of the record region x several values (thorough: all 255), zeroing, random multi-byte and block overwrites, sampled tail offsets: the damaged image is opened by the real code (probe process) and by the Lean model; both must agree and show the newest commit (older header or unchecked byte damaged) or the previous commit (newest header damaged), complete and passing DB::check.",
        "design_ref": "DESIGN.md §5 C12, §3.2",
        "note": COMMON_NOTE + "Multi-byte damage is covered under the no-collision hypothesis, which is evaluated on every generated image (a collision would show as a disagreement). Which file offset belongs to which hashed byte is tied by the per-offset correspondence, not proved.",
    },
    "C15": {
        "category": "proof",
        "technique": "Lean 4 decided obligations on the layout / checksum order regenerated from the repr(C) structs (equal to the pinned release's) + theorems on format precedence and page-size refusal + golden-file correspondence (files written by the pinned commit, legacy-header rewrites)",
        "text": "Decided on every run: the layout regenerated from the current source equals the pinned layout (every offset, size, tag), magic/version/hash field orders are the pinned ones. Proved: current format first, legacy only when neither slot is valid, a valid header naming another page size is refused whichever slot holds it. Tie: golden files written by the pinned commit at page sizes 1024/4096/5000/16384 (nested buckets, multi-page values, empty key, non-empty free list), each also with the legacy (SHA3) header record, are (a) opened by the current code and by the Lean reader encoding the pinned layout and compared with the dump recorded when they were written, (b) continued by random transactions checked against the specification started from the golden contents, with DB::check and the Lean file checker after every commit and a reopen, (c) opened with every other page size of a list: refused, bytes unchanged. Every file any other check produces is parsed by the same pinned-layout reader.",
        "design_ref": "DESIGN.md §5 C15, §3.2",
        "note": COMMON_NOTE + "Legacy files are synthesised by rewriting the header record of a pinned-release file (no 0.10 binary in the sandbox); SHA3-256 is implemented in the driver (checked against known vectors) and uninterpreted in proofs. 'Refused' is the documented panic.",
    },
    "C02": {
        "category": "proof",
        "technique": "Lean 4 theorems on a page-level disk model (durable image + unsynced writes; arbitrary subsets and tears) proving crash atomicity and durability for the commit's operation order, instantiated at the order regenerated from write_data + crash-image correspondence from libc calls logged by an LD_PRELOAD shim",
        "text": "Proved (Jamm/Props/C02.lean) for every commit context (current header newest and intact, copy-on-write, newer header): after any prefix of the commit's operations and any fates (lost / full / torn) of the writes issued since the last completed sync, recovery finds the previous commit complete or the new commit complete; once the final sync completed every later crash recovers the new commit; process kills are atomic even without the intermediate sync. The operations of write_data, in the order regenerated from the source on every run, are proved to have exactly the safe shape (data writes, sync, header into the other slot, sync); the pinned release's order is proved NOT atomic (D8, repaired by a fix: commit). Tie: histories run under an LD_PRELOAD shim that logs write/lseek/fsync on the database fd; the observed sequence of every commit must match the regenerated step order; crash images (every write prefix, short last write, all single omissions and sampled subsets of unsynced writes, 512-byte sector tears, 8-byte header word tears) are opened by the real code and by the Lean model and must show exactly the state before or after, pass DB::check and the Lean file checker; after return the new state must survive.",
        "design_ref": "DESIGN.md §5 C02, §3.8",
        "note": COMMON_NOTE + "A-disk: sector atomicity, no reordering across a completed fsync, page cache coherent with mmap (assumptions about Linux). NoTornCollision is evaluated on every synthesised header tear. That the real commit is copy-on-write is checked per commit (C03/C05), not proved. A crash during file creation is outside the property.",
    },
    "C11": {
        "category": "proof",
        "technique": "Lean 4: kernel-decided consistency of in-memory free list vs visible header at every failure point of the regenerated step order + kill-image atomicity theorems (C02) + exhaustive single-fault injection through the LD_PRELOAD shim and RLIMIT_FSIZE",
        "text": "Proved / decided on every run (Jamm/Props/C11.lean): at every fallible step of the regenerated write_data order, for both outcomes of a partial header write, and on success, the shared free list is published iff this transaction's header is the visible one; a failure leaves a kill image of the operations issued so far, hence exactly the previous or the new commit (including a header write that fails after a short write); witnesses: the pinned order is inconsistent (D9, repaired by a fix: commit) and publishing right after the header write would not have been enough. The translator refuses to regenerate the step list unless every file operation propagates its error with `?`. Tie: every write index x {EIO, ENOSPC after a 0/512-byte short write} and every fsync index of real commits is failed through the shim, file extension through RLIMIT_FSIZE; commit must return the I/O error (never panic); then the visible state must be exactly before or after, the Lean file checker and DB::check must pass, three more committed transactions and a reopen must refine the specification.",
        "design_ref": "DESIGN.md §5 C11, §3.8",
        "note": COMMON_NOTE + "Assumes pages written before a failed fsync stay visible through the map (kernel behaviour). Pairs of faults are sampled only in the thorough tier.",
    },
    "C04": {
        "category": "proof",
        "technique": "Lean 4 invariant proof over all interleavings of split reader/writer events (writer begin and commit separate, readers registering in between) given atomic registration, which is decided on the step order regenerated from Tx::new + deterministic-scheduler correspondence on real threads at instrumented yield points",
        "text": "Proved for every trace and any number of readers (Jamm/Props/C04.lean): accounting invariant in every reachable state; when the open writer commits no page of any registered reader's snapshot is free or written, however readers registered/left between the writer's begin and commit; a writer starts from the newest committed snapshot and excludes other writers. The atomicity of 'read header + register' is an obligation decided on every run on the regenerated Tx::new step order (false for the pinned release: D10, with a machine-checked witness trace; repaired by a fix: commit). Tie: real transactions on real threads under a deterministic scheduler driven by verif-hooks yield points: all schedules with <=1 preemption, a seeded sample with 2, seeded random schedules, of 1-2 readers against 2-4 page-reusing commits; each reader's two full dumps must be equal and equal the committed state after c commits for some c >= the number of commits that had returned before it began (checked by the Lean driver against the specification).",
        "design_ref": "DESIGN.md §5 C04, §3.8",
        "note": COMMON_NOTE + "A-lock: a mutex-protected critical section is atomic w.r.t. other holders (the link from the step list to the atomic event is this assumption, not a micro-step proof). A-hdr: a header slot is read atomically; interleavings inside DBInner::meta and inside libc are below the yield points. Weak-memory effects are delegated to std locks.",
    },
    "C09": {
        "category": "proof",
        "technique": "Lean 4 theorems on a lock-protocol model (file mutex, map rwlock with both admission policies, one transaction per thread): writer exclusion, deadlock freedom, termination measure, readers not blocked by an open writer + obligations on regenerated lock orders + deterministic-scheduler correspondence (read-modify-write increments, file growth)",
        "text": "Proved for any number of threads, scripts and schedules (Jamm/Props/C09.lean): at most one write transaction open; whenever some thread has work left some thread can move, for both rwlock reader-admission policies; each step strictly decreases a work measure (every fair run finishes); a reader's begin is enabled while a writer is open and not remapping; a writer starts from the newest snapshot (no lost update). Decided on regenerated step lists: Tx::new takes the transaction lock first; resize takes map write lock then map-handle mutex; header read inside the reader-list mutex, map handle cloned after it is released; drop takes only the reader-list mutex. Tie: 2-3 writer threads doing read-modify-write increments with 1-2 readers, including commits that grow the file (resize path), under all <=1-preemption schedules, sampled 2-preemption and seeded random schedules: no overlap of write transactions, every commit ok, final counter = number of increments, readers see committed states, the scheduler never finds all threads blocked.",
        "design_ref": "DESIGN.md §5 C09, §3.8",
        "note": COMMON_NOTE + "A thread that opens two transactions can deadlock (documented; excluded by the model's one-transaction-per-thread discipline). The scheduler explores the admit-readers policy only (a parked resizer is not an OS-level waiter); the blocking policy is covered by the theorem. Liveness assumes a fair OS scheduler.",
    },
    "C13": {
        "category": "proof",
        "technique": "Lean 4 invariant proofs on a process-level open/lock/initialise/close model (exclusion, visibility and absence of failure for every schedule, every number of processes and every initial file state) + obligations on the regenerated open step orders + forced orderings between real processes (LD_PRELOAD parking inside libc calls, parking once inside, holder-grows-the-file and creator-holds scenarios)",
        "text": "Proved for any number of processes and every interleaving (Jamm/Props/C13.lean): at most one process is between lock-acquired and close and whoever is inside has seen every commit made before it got in; no opener ever fails, whether the file exists, is missing or is still empty; whoever is inside sees an initialised file. The model's step order is the regenerated one: the path is opened with create-if-missing and never tested for existence first, the lock is taken before a still empty file is initialised, initialisation comes before the map, the map before the header read (obligations decided on Gen.openOuter / initSteps / openInner). The defect D12 (a missing file used to be created and initialised before the lock was taken) was repaired in /repo (fix: commit bb0535b); the witness schedule is kept as a theorem about the pinned order, and the same schedule provably passes under the repaired order. Tie: 2-4 real worker processes open the same file; the shim parks the first one inside a chosen libc call (open/write/fsync/mmap/close) or the worker parks itself once inside, later openers are started meanwhile; scenarios include a missing file with the creator parked right after creating it, the creator holding the database, and the holder growing the file while a late opener waits; each worker commits a marker and walks what earlier holders wrote; monotonic timestamps of open-returned / about-to-close and the markers each opener sees are checked by the Lean driver.",
        "design_ref": "DESIGN.md §5 C13, §3.8",
        "note": COMMON_NOTE + "flock semantics (one holder, same host, not NFS) are an assumption; flock itself is a raw system call invisible to the shim, its effect is observed through the timestamps. A process that dies between allocating and writing the initial pages leaves a zero-filled file that is not re-initialised (outside the property).",
    },
    "C14": {
        "category": "other",
        "technique": "finite-table Lean proofs (kernel-decided) of a signature-level lifetime / Send discipline over the API table regenerated from nightly rustdoc JSON + translation-validation-style correspondence with the real rustc on generated escape programs; D13 is an OPEN known finding",
        "text": "rustc's type checker cannot be modelled in Lean; what is proved (Jamm/Props/C14.lean, decided on the table regenerated from rustdoc JSON on every run) is the discipline the signatures follow: every public method / trait method of every handed-out type whose result can hold mapped bytes returns a transaction-bounded type, except the listed known edge BucketName -> ToBytes::to_bytes -> Bytes<'tx> (D13, open finding: safe code reads freed map memory, reproduced as SIGSEGV on every run and printed as KNOWN-FINDING); DB::tx is bounded by the handle; every handed-out type is !Send by auto-trait evaluation over the regenerated private fields; DB is Send. Correspondence: one escape program per table row, hand-written escape routes (commit/drop consumption, Tx past DB, short-lived keys/values, moving or sharing handles across threads) and positive controls are type-checked by the real rustc against the current tree; the verdict (and that rejections carry borrow/lifetime/Send error codes) is compared with the model's; programs that compile are run while the file is remapped and pages are reused and must neither fault nor see bytes change. A public method without a program template breaks the check.",
        "design_ref": "DESIGN.md §5 C14",
        "note": COMMON_NOTE + "Partial by construction: the region rule abstracts the borrow checker and is validated only on this corpus (variance, HRTB, drop-check not modelled); rustc and nightly rustdoc JSON (format 57) are trusted.",
    },
}

REASON_PENDING = "check not built yet (build in progress, see DESIGN.md section 8)"


def main():
    ids = [json.loads(l)["id"] for l in open(os.path.join(ROOT, "properties.jsonl"))]
    commits = []
    try:
        out = subprocess.run(["git", "-C", "/repo", "log", "--format=%h %s", "f5c2214..HEAD"], capture_output=True, text=True).stdout
        commits = [l.split(" ")[0] for l in out.strip().split("\n") if l and not l.split(" ", 1)[1].startswith("fix:")]
    except Exception:
        pass
    m = {
        "version": 1,
        "setup_cmd": "cd /verif && ./setup.sh",
        "hooks": {
            "guard": "cargo feature verif-hooks",
            "enable": "the harness crate (/verif/harness) depends on /repo by path with features=[\"verif-hooks\"]",
            "baseline_off_cmd": "cd /repo && (cargo nextest run --workspace --no-fail-fast --offline || cargo test --workspace --no-fail-fast --offline)",
            "source_commits": commits,
            "add_only": True,
        },
        "engines": [
            {"name": "lean-proofs", "path": "lean/Jamm", "serves_properties": sorted(CLAIMED), "kind_free_text": "Lean 4 library: specification, executable model, property theorems (Jamm/Props), axiom audit"},
            {"name": "histories", "path": "harness/src/hist.rs + lean/Driver + tools/jgen.py", "serves_properties": [p for p in sorted(CLAIMED) if p in ("C01", "C03", "C05", "C06", "C07", "C08", "C10", "C16")], "kind_free_text": "differential correspondence: real jammdb vs Lean specification/model over a line protocol"},
        ],
        "checks": [],
        "notes": "All checks are ./check <id>; see DESIGN.md. KNOWN_FINDINGS.txt lists repaired defects (fix: commits in /repo) and open findings.",
        "not_applicable": [],
    }
    for pid in ids:
        if pid in CLAIMED:
            c = CLAIMED[pid]
            m["checks"].append({
                "property_id": pid,
                "quick_cmd": "./check %s --tier quick" % pid,
                "thorough_cmd": "./check %s --tier thorough" % pid,
                "evidence_file": "/verif/evidence/%s.json" % pid,
                "replay_cmd_template": "./check %s --replay {path}" % pid,
                "engine": "lean-proofs",
                "level_claimed": {"category": c["category"], "text": c["text"], "design_ref": c["design_ref"]},
                "level_note": c["note"],
                "technique": c["technique"],
            })
        else:
            m["not_applicable"].append({"property_id": pid, "reason": REASON_PENDING})
    with open(os.path.join(ROOT, "MANIFEST.json"), "w") as f:
        json.dump(m, f, indent=1)
    print("wrote MANIFEST.json: %d checks, %d not claimed" % (len(m["checks"]), len(m["not_applicable"])))


if __name__ == "__main__":
    main()
