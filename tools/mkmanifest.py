#!/usr/bin/env python3
"""Regenerates /verif/MANIFEST.json from the table below (kept next to the code so it stays valid)."""
import json
import os
import subprocess

ROOT = "/verif"

COMMON_NOTE = "Trusted: Lean kernel + {propext, Classical.choice, Quot.sound}; Jamm/Model/Spec.lean and the statements in Jamm/Props; harness + driver glue; translators (tools/gen_all.py). Assumes no u64 wrap-around. "

CLAIMED = {
    "C01": {
        "category": "other",
        "technique": "Lean 4 proofs of per-bucket refinement (lookup, cursor, in-transaction edits on every well-formed tree) + verified file checker run on the real bytes after every commit + differential correspondence of every API outcome against the Lean specification",
        "text": "Proved in Lean, for all keys, values, trees and edit sequences (Jamm/Props/C01.lean): the reference is an ordered map; on every well-formed B+tree the model of Bucket::get and of the cursor return the reference's answer on the tree's in-order contents, any sequence of put/delete leaf edits equals the same sequence of reference-map operations and preserves well-formedness; the executable checker wfb is sound for well-formedness. NOT proved: that commit (rebalance/spill) turns a well-formed overlay into a well-formed file with the same contents; that step is decided per commit by running the verified checker and the contents comparison on the bytes the real code wrote (C05) — hence category other, not proof. Tie, checked on every run: histories (random profiles, directed enumerations of all delete ranges over 1/2/3-level trees with and without nested buckets, rollbacks, reopen, misuse of deleted handles) are executed on /repo built from the working tree and every call outcome and every post-commit dump (same process and after reopen) is compared by the Lean driver with the specification.",
        "design_ref": "DESIGN.md §5 C01, §3.1, §3.4–3.7",
        "note": COMMON_NOTE + "Modelled, tied by correspondence only: search/cursor/leaf edits (their Lean models are exercised through the spec comparison), commit.",
    },
    "C05": {
        "category": "other",
        "technique": "independent file checker written in Lean (decoder + WF + page accounting), proved sound in Lean, executed on the real file bytes after every commit; plus DB::check and contents comparison with the specification",
        "text": "After every commit of every generated history the harness snapshots the file and the Lean driver decodes it with the layout regenerated from /repo/src, chooses the header as the code does, unfolds every bucket tree, evaluates wfb (keys strictly ascending within and across pages, separators bound their subtrees, every element inside its run), and checks that reached runs + free-list run + free-list entries are exactly pages 2..numPages-1 with no page twice; the decoded contents must equal the specification's and DB::check must agree. Proved in Lean: wfb is sound for WF (so Layer Q theorems apply to the real file), the accounting comparison is exact (no duplicate, none missing, none out of range). Not proved: that commit always yields such a file (decided per commit instead).",
        "design_ref": "DESIGN.md §5 C05, §3.2, §3.6",
        "note": COMMON_NOTE + "The checker shares no code with jammdb; bytes outside defined ranges (padding, stale tails) are unconstrained by design.",
    },
    "C07": {
        "category": "proof",
        "technique": "Lean 4 theorems: any sequence of in-transaction leaf edits on a well-formed tree refines the reference map, and lookup/scan/seek/range on the edited tree (emptied leaves included) return the reference's answers; model tied to the code by read-after-every-operation differential runs",
        "text": "Proved for every well-formed starting tree, every sequence of puts and deletes and every key / bound pair (Jamm/Props/C07.lean): contents = reference contents after the same operations, tree stays well-formed, point lookup, full scan, seek and all nine kinds of range scan on the edited tree equal the reference. The model is the value-level overlay (committed tree with edited, possibly emptied leaves; branch entries untouched before commit). Tie: histories in read-after-every-op mode (scan, seek, range, get, buckets, kv_pairs, next_int after each mutation; directed emptying of each leaf and inserts at leaf boundaries) run on the real code and compared with the Lean specification.",
        "design_ref": "DESIGN.md §5 C07, §3.5",
        "note": COMMON_NOTE + "Bucket creation/deletion inside the transaction are leaf edits of the parent plus cache bookkeeping; the cache is modelled as part of the nested value (unobservable difference). A cursor kept across a mutation is unspecified and not generated.",
    },
    "C08": {
        "category": "proof",
        "technique": "Lean 4 theorems about the cursor stack machine (enumeration, after-the-end, seek, nine range bound kinds, filters, binary-search slot) on every tree; model tied to the code by differential query batteries on committed and mid-transaction buckets",
        "text": "Proved for all trees / keys / bounds (Jamm/Props/C08.lean): a fresh cursor yields every entry exactly once in order and next() after the end keeps returning none (no ordering assumption needed); on well-formed trees seek reports presence and starts at the key or an immediate neighbour with every later entry following; Range yields exactly Spec.range for all 3x3 bound kinds incl. reversed / out-of-range; buckets()/kv_pairs() are filters. The model mirrors cursor.rs after the three fix: commits (D5, D6, D7). Tie: query batteries (every present key, gaps, below min, above max, leaf/branch boundaries x bound kinds, extra next() after exhaustion) on empty, single-leaf and multi-level buckets, committed and mid-transaction.",
        "design_ref": "DESIGN.md §5 C08, §3.4",
        "note": COMMON_NOTE + "Rust's binary_search_by_key is assumed correct on strictly ascending input (the model uses its specification, not the halving loop).",
    },
}

REASON_PENDING = "check not built yet (build in progress, see DESIGN.md section 8)"


def main():
    ids = [json.loads(l)["id"] for l in open(os.path.join(ROOT, "properties.jsonl"))]
    commits = []
    try:
        out = subprocess.run(["git", "-C", "/repo", "log", "--format=%h %s", "f5c2214..HEAD"], capture_output=True, text=True).stdout
        commits = [l.split(" ")[0] for l in out.strip().split("\n") if l and not l.split(" ", 1)[1].startswith("fix:")]
    except Exception:
        pass
    m = {
        "version": 1,
        "setup_cmd": "cd /verif && ./setup.sh",
        "hooks": {
            "guard": "cargo feature verif-hooks",
            "enable": "the harness crate (/verif/harness) depends on /repo by path with features=[\"verif-hooks\"]",
            "baseline_off_cmd": "cd /repo && (cargo nextest run --workspace --no-fail-fast --offline || cargo test --workspace --no-fail-fast --offline)",
            "source_commits": commits,
            "add_only": True,
        },
        "engines": [
            {"name": "lean-proofs", "path": "lean/Jamm", "serves_properties": sorted(CLAIMED), "kind_free_text": "Lean 4 library: specification, executable model, property theorems (Jamm/Props), axiom audit"},
            {"name": "histories", "path": "harness/src/hist.rs + lean/Driver + tools/jgen.py", "serves_properties": [p for p in sorted(CLAIMED) if p in ("C01", "C03", "C05", "C06", "C07", "C08", "C10", "C16")], "kind_free_text": "differential correspondence: real jammdb vs Lean specification/model over a line protocol"},
        ],
        "checks": [],
        "notes": "All checks are ./check <id>; see DESIGN.md. KNOWN_FINDINGS.txt lists repaired defects (fix: commits in /repo) and open findings.",
        "not_applicable": [],
    }
    for pid in ids:
        if pid in CLAIMED:
            c = CLAIMED[pid]
            m["checks"].append({
                "property_id": pid,
                "quick_cmd": "./check %s --tier quick" % pid,
                "thorough_cmd": "./check %s --tier thorough" % pid,
                "evidence_file": "/verif/evidence/%s.json" % pid,
                "replay_cmd_template": "./check %s --replay {path}" % pid,
                "engine": "lean-proofs",
                "level_claimed": {"category": c["category"], "text": c["text"], "design_ref": c["design_ref"]},
                "level_note": c["note"],
                "technique": c["technique"],
            })
        else:
            m["not_applicable"].append({"property_id": pid, "reason": REASON_PENDING})
    with open(os.path.join(ROOT, "MANIFEST.json"), "w") as f:
        json.dump(m, f, indent=1)
    print("wrote MANIFEST.json: %d checks, %d not claimed" % (len(m["checks"]), len(m["not_applicable"])))


if __name__ == "__main__":
    main()
