#!/usr/bin/env python3
"""Regenerates /verif/MANIFEST.json from the table below (kept next to the code so it stays valid)."""
import json
import os
import subprocess

ROOT = "/verif"

CLAIMED = {
    "C01": {
        "category": "proof",
        "technique": "Lean 4 theorems (reference-map laws; B+tree lookup/put/delete/cursor refinement to the sorted contents) + differential correspondence of every API outcome against the Lean specification",
        "text": "Lean theorems, for all keys/values/trees: the reference is an ordered map; on every well-formed tree the model's point lookup, leaf insert/replace/delete and cursor equal the specification applied to the tree's in-order contents (Jamm/Props/C01.lean lists what is proved and what is still tied only by correspondence). The tie to the code is checked on every run: histories (random profiles and directed enumerations of delete ranges over 1/2/3-level trees, nested buckets, rollbacks, reopen) are executed on /repo built from the working tree and every outcome, every post-commit dump (same process and after reopen) is compared by the Lean driver with the specification.",
        "design_ref": "DESIGN.md §5 C01, §3.1, §3.4–3.7",
        "note": "Trusted: Lean kernel + {propext, Classical.choice, Quot.sound}; Spec.lean; harness + driver glue; commit (rebalance/spill) is modelled only through its specification (CommitSpec) which is evaluated, not proved — see DESIGN.md §6. Assumes no u64 wrap-around.",
    },
}

REASON_PENDING = "check not built yet (build in progress, see DESIGN.md section 8)"


def main():
    ids = [json.loads(l)["id"] for l in open(os.path.join(ROOT, "properties.jsonl"))]
    commits = []
    try:
        out = subprocess.run(["git", "-C", "/repo", "log", "--format=%h %s", "f5c2214..HEAD"], capture_output=True, text=True).stdout
        commits = [l.split(" ")[0] for l in out.strip().split("\n") if l and not l.split(" ", 1)[1].startswith("fix:")]
    except Exception:
        pass
    m = {
        "version": 1,
        "setup_cmd": "cd /verif && ./setup.sh",
        "hooks": {
            "guard": "cargo feature verif-hooks",
            "enable": "the harness crate (/verif/harness) depends on /repo by path with features=[\"verif-hooks\"]",
            "baseline_off_cmd": "cd /repo && (cargo nextest run --workspace --no-fail-fast --offline || cargo test --workspace --no-fail-fast --offline)",
            "source_commits": commits,
            "add_only": True,
        },
        "engines": [
            {"name": "lean-proofs", "path": "lean/Jamm", "serves_properties": sorted(CLAIMED), "kind_free_text": "Lean 4 library: specification, executable model, property theorems (Jamm/Props), axiom audit"},
            {"name": "histories", "path": "harness/src/hist.rs + lean/Driver + tools/jgen.py", "serves_properties": [p for p in sorted(CLAIMED) if p in ("C01", "C03", "C05", "C06", "C07", "C08", "C10", "C16")], "kind_free_text": "differential correspondence: real jammdb vs Lean specification/model over a line protocol"},
        ],
        "checks": [],
        "notes": "All checks are ./check <id>; see DESIGN.md. KNOWN_FINDINGS.txt lists repaired defects (fix: commits in /repo) and open findings.",
        "not_applicable": [],
    }
    for pid in ids:
        if pid in CLAIMED:
            c = CLAIMED[pid]
            m["checks"].append({
                "property_id": pid,
                "quick_cmd": "./check %s --tier quick" % pid,
                "thorough_cmd": "./check %s --tier thorough" % pid,
                "evidence_file": "/verif/evidence/%s.json" % pid,
                "replay_cmd_template": "./check %s --replay {path}" % pid,
                "engine": "lean-proofs",
                "level_claimed": {"category": c["category"], "text": c["text"], "design_ref": c["design_ref"]},
                "level_note": c["note"],
                "technique": c["technique"],
            })
        else:
            m["not_applicable"].append({"property_id": pid, "reason": REASON_PENDING})
    with open(os.path.join(ROOT, "MANIFEST.json"), "w") as f:
        json.dump(m, f, indent=1)
    print("wrote MANIFEST.json: %d checks, %d not claimed" % (len(m["checks"]), len(m["not_applicable"])))


if __name__ == "__main__":
    main()
