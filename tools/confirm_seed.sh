#!/bin/bash
# usage: confirm_seed.sh <mutation dir with patch.diff + demo.rs> <seed id> <property>
# Confirms in a scratch worktree: suite passes with the patch, demo fails with it, demo passes without.
# DEMO_FEATURES=<cargo features> for demonstrations that use the feature-gated hooks.
# On success stores /verif/seeded/<seed id>/{patch.diff,demo.rs,notes.md,meta.json}.
set -u
M=$1; ID=$2; PROP=$3
WT=/tmp/seedwt-$$
export CARGO_NET_OFFLINE=true CARGO_TARGET_DIR=/tmp/seedwt-target
git -C /repo worktree add -q --detach $WT HEAD || exit 2
cd $WT
res_suite=FAIL; res_demo_mut=PASS; res_demo_clean=FAIL
if git apply $M/patch.diff; then
  if cargo test --offline >/tmp/seed-suite.log 2>&1; then res_suite=PASS; fi
  cp $M/demo.rs tests/zz_demo.rs
  if cargo test --offline ${DEMO_FEATURES:+--features $DEMO_FEATURES} --test zz_demo >/tmp/seed-demo-mut.log 2>&1; then res_demo_mut=PASS; else res_demo_mut=FAIL; fi
  git checkout -q -- src
  if cargo test --offline ${DEMO_FEATURES:+--features $DEMO_FEATURES} --test zz_demo >/tmp/seed-demo-clean.log 2>&1; then res_demo_clean=PASS; fi
else
  echo "patch does not apply"; res_suite=NOAPPLY
fi
cd /; git -C /repo worktree remove --force $WT
echo "suite_with_patch=$res_suite demo_with_patch=$res_demo_mut demo_without=$res_demo_clean"
if [ $res_suite = PASS ] && [ $res_demo_mut = FAIL ] && [ $res_demo_clean = PASS ]; then
  mkdir -p /verif/seeded/$ID
  cp $M/patch.diff $M/demo.rs /verif/seeded/$ID/
  [ -f $M/notes.md ] && cp $M/notes.md /verif/seeded/$ID/
  python3 - <<PY
import json, os
notes = open("$M/notes.md").read()[:1500] if os.path.exists("$M/notes.md") else ""
json.dump({"id":"$ID","property":"$PROP","source":"independent sub-agent, given only the property text and a scratch worktree","confirmed":{"suite_with_patch":"pass (cargo test --offline)","demo_with_patch":"fails","demo_without_patch":"passes"},"needs":notes,"detected_by":[]}, open("/verif/seeded/$ID/meta.json","w"), indent=1)
PY
  echo CONFIRMED $ID
else
  echo REJECTED $ID; tail -5 /tmp/seed-suite.log
fi
