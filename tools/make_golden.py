#!/usr/bin/env python3
"""One-off generator of /verif/golden: database files written by the *pinned* release (f5c2214) at page
sizes 1024, 4096, 5000, 16384 (nested buckets, multi-page values, non-empty free list), each also
rewritten with the legacy (<= 0.10) header record.  Run once; the outputs are committed.
Uses a scratch worktree of the pinned commit and a scratch copy of the harness without hook ops."""
import hashlib
import os
import re
import shutil
import subprocess
import sys

sys.path.insert(0, os.path.dirname(os.path.abspath(__file__)))
import jgen

PINNED = "f5c2214"
W = "/tmp/gold"
OUT = "/verif/golden"


def sh(cmd, **kw):
    print("+", cmd)
    subprocess.run(cmd, shell=True, check=True, **kw)


def golden_history(ps):
    hx, vtok = jgen.hx, jgen.vtok
    L = ["hist golden-%d" % ps, "cfg pagesize=%d numpages=64 strict=0 populate=0" % ps, "open"]
    t = 1
    L += ["begin 1 w", "mkb 1 1 0 %s" % hx(b"accounts"), "mkb 1 2 1 %s" % hx(b"eu"), "mkb 1 3 2 %s" % hx(b"archive"), "mkb 1 4 0 %s" % hx(b"blobs")]
    for i in range(40):
        L.append("put 1 1 %s %s" % (hx(b"acct-%04d" % i), vtok(bytes([48 + i % 10]) * (20 + i))))
    for i in range(12):
        L.append("put 1 2 %s %s" % (hx(b"eu-%03d" % i), vtok(bytes([97 + i]) * 150)))
    L.append("put 1 3 %s %s" % (hx(b"old"), hx(b"data")))
    L.append("put 1 4 %s %s" % (hx(b"big-1"), vtok(b"\x11" * (ps * 3 + 100))))
    L.append("put 1 4 %s %s" % (hx(b"big-2"), vtok(b"\x22" * (ps + 7))))
    L.append("put 1 4 %s %s" % (hx(b""), hx(b"empty-key")))
    L += ["commit 1", "begin 2 w", "getb 2 5 0 %s" % hx(b"accounts"), "getb 2 6 0 %s" % hx(b"blobs")]
    for i in range(0, 40, 7):
        L.append("put 2 5 %s %s" % (hx(b"acct-%04d" % i), vtok(b"\x7e" * 300)))
    L.append("del 2 5 %s" % hx(b"acct-0003"))
    L.append("put 2 6 %s %s" % (hx(b"big-1"), vtok(b"\x33" * (ps * 2))))
    L += ["commit 2", "begin 3 w", "getb 3 7 0 %s" % hx(b"accounts"), "mkb 3 8 7 %s" % hx(b"us")]
    for i in range(6):
        L.append("put 3 8 %s %s" % (hx(b"us-%d" % i), vtok(bytes([65 + i]) * 70)))
    L.append("del 3 7 %s" % hx(b"acct-0011"))
    L += ["commit 3", "begin 4 r", "dump 4", "drop 4", "snap golden", "close"]
    return L


def truncate_used(data, ps):
    np_ = max(int.from_bytes(data[72:80], "little"), int.from_bytes(data[ps + 72:ps + 80], "little"))
    return data[: np_ * ps]


def legacy_rewrite(data, ps):
    d = bytearray(data)
    for slot in (0, 1):
        o = slot * ps + 32
        rec = d[o:o + 72]
        u32 = lambda a: int.from_bytes(rec[a:a + 4], "little")
        u64 = lambda a: int.from_bytes(rec[a:a + 8], "little")
        img = b"".join([u32(0).to_bytes(4, "big"), u32(4).to_bytes(4, "big"), u32(8).to_bytes(4, "big")] +
                       [u64(a).to_bytes(8, "big") for a in (16, 24, 32, 40, 48, 56)])
        d[o + 64:o + 96] = hashlib.sha3_256(img).digest()
    return bytes(d)


def main():
    shutil.rmtree(W, ignore_errors=True)
    os.makedirs(W)
    sh("git -C /repo worktree add -q --detach %s/repo %s" % (W, PINNED))
    shutil.copytree("/verif/harness", W + "/harness", ignore=shutil.ignore_patterns("target"))
    c = open(W + "/harness/Cargo.toml").read()
    c = c.replace('jammdb = { path = "/repo", features = ["verif-hooks"] }', 'jammdb = { path = "%s/repo" }' % W)
    open(W + "/harness/Cargo.toml", "w").write(c)
    h = open(W + "/harness/src/hist.rs").read()
    # strip the ops that need hooks
    for op in ("flstate", "readers", "tree"):
        h = re.sub(r'            "%s" => \{.*?\n            \}\n' % op, "", h, count=1, flags=re.S)
    open(W + "/harness/src/hist.rs", "w").write(h)
    env = dict(os.environ, CARGO_TARGET_DIR=W + "/target", CARGO_NET_OFFLINE="true")
    sh("cargo build --offline", cwd=W + "/harness", env=env)
    os.makedirs(OUT, exist_ok=True)
    for ps in (1024, 4096, 5000, 16384):
        hist = golden_history(ps)
        open(W + "/g.hist", "w").write("\n".join(hist) + "\n")
        db = "/dev/shm/golden-%d.db" % ps
        sh("%s/target/debug/jharness hist %s/g.hist %s/g.trace %s" % (W, W, W, db))
        trace = open(W + "/g.trace").read().split("\n")
        dump = [l for l in trace if l.startswith("dump 4 => ")][0][len("dump 4 => "):]
        bad = [l for l in trace if " => panic" in l or " => err" in l]
        assert not bad, bad
        data = truncate_used(open(db + ".golden", "rb").read(), ps)
        open("%s/golden-%d.db" % (OUT, ps), "wb").write(data)
        open("%s/golden-%d-legacy.db" % (OUT, ps), "wb").write(legacy_rewrite(data, ps))
        open("%s/golden-%d.dump" % (OUT, ps), "w").write(dump + "\n")
        # the creating operations, for the model to replay ('!' = performed at creation time)
        ops = [l for l in hist[3:] if l.split(" ")[0] not in ("snap", "close", "dump")]
        open("%s/golden-%d.ops" % (OUT, ps), "w").write("\n".join("!" + l for l in ops) + "\n")
        os.remove(db + ".golden")
        print("golden", ps, len(data), "bytes")
    sh("git -C /repo worktree remove --force %s/repo" % W)
    shutil.rmtree(W, ignore_errors=True)


if __name__ == "__main__":
    main()
