"""I/O streams (C02 crash images, C11 fault injection): run histories under the LD_PRELOAD shim, read the
logged libc calls on the database fd, check the trace against the regenerated step order, synthesise
crash images and open each with the real code and the Lean model."""
import os
import random
import re
import shutil

import imgcheck
import jgen
import vlib
from vlib import log

SHIM = os.path.join(vlib.WORK, "ioshim.so")


def ensure_shim():
    src = os.path.join(vlib.ROOT, "shim", "ioshim.c")
    if not os.path.exists(SHIM) or os.path.getmtime(SHIM) < os.path.getmtime(src):
        rc, o, e, _ = vlib.sh(["cc", "-O1", "-shared", "-fPIC", "-o", SHIM, src, "-ldl"])
        if rc != 0:
            raise RuntimeError("shim build failed: " + e)


def gen_steps_list():
    txt = open(os.path.join(vlib.LEAN, "Jamm/Gen/Steps.lean")).read()
    m = re.search(r"def commitSteps : List Jamm.CommitStep := \[(.*?)\]", txt)
    if not m:
        return None  # the step list could not be regenerated (reported as a broken obligation)
    return [x.strip().lstrip(".") for x in m.group(1).split(",")]


def parse_log(path):
    """returns list of commits: {seq, tx, outcome, events: [('W', off, bytes) | ('S',) | ('F', kind, errno)]}"""
    commits = []
    cur = None
    for line in open(path, errors="replace"):
        f = line.rstrip("\n").split(" ")
        if f[0] == "M" and f[1] == "commit-begin":
            cur = {"seq": int(f[2]), "tx": int(f[3]), "events": [], "outcome": None}
        elif f[0] == "M" and f[1] == "commit-end":
            if cur:
                cur["outcome"] = f[4] if len(f) > 4 else "?"
                commits.append(cur)
            cur = None
        elif cur is not None:
            if f[0] == "W":
                cur["events"].append(("W", int(f[2]), bytes.fromhex(f[4]) if len(f) > 4 else b""))
            elif f[0] == "S":
                cur["events"].append(("S",))
            elif f[0] == "F":
                cur["events"].append(("F", f[1], f[2]))
            elif f[0] == "U":
                cur["events"].append(("U", f[1]))      # a write-like call the commit model does not know
    return commits


def check_shape(commit, steps, pagesize):
    """the observed I/O of a successful commit must be what the regenerated step order predicts:
    data runs in ascending page order, syncs and the header page write where `steps` puts them"""
    kinds = []
    for s in steps:
        if s == "writeData":
            kinds.append("D*")
        elif s == "writeMeta":
            kinds.append("H")
        elif s == "sync":
            kinds.append("S")
    ev = commit["events"]
    for e in ev:
        if e[0] == "U":
            return "the commit issued %s on the database file: not an operation of the commit model (write / fsync)" % e[1]
    i = 0
    last_off = -1
    for k in kinds:
        if k == "D*":
            while i < len(ev) and ev[i][0] == "W" and not (ev[i][1] in (0, pagesize) and len(ev[i][2]) == pagesize):
                if ev[i][1] < 2 * pagesize:
                    return "data write into a header page at offset %d" % ev[i][1]
                if ev[i][1] <= last_off:
                    return "data writes not in ascending page order"
                if ev[i][1] % pagesize != 0:
                    return "data write not page aligned"
                last_off = ev[i][1]
                i += 1
        elif k == "H":
            if i >= len(ev) or ev[i][0] != "W" or ev[i][1] not in (0, pagesize) or len(ev[i][2]) != pagesize:
                return "expected the header page write at event %d, found %s" % (i, ev[i][:2] if i < len(ev) else "end")
            i += 1
        elif k == "S":
            if i >= len(ev) or ev[i][0] != "S":
                return "expected a sync at event %d, found %s" % (i, ev[i][:2] if i < len(ev) else "end")
            i += 1
    if i != len(ev):
        return "unexpected extra I/O after the predicted sequence: %s" % (ev[i][:2],)
    return None


def apply_writes(base, writes, length):
    d = bytearray(base)
    if len(d) < length:
        d.extend(bytes(length - len(d)))
    for off, data in writes:
        d[off:off + len(data)] = data
    return d


def crash_images(commit, pre, pagesize, r, quick):
    """yields (name, kind, after_return, image bytes).  kind: kill | power"""
    ev = commit["events"]
    writes = [(i, e[1], e[2]) for i, e in enumerate(ev) if e[0] == "W"]
    length = max([len(pre)] + [off + len(data) for _, off, data in writes])
    length = (length + pagesize - 1) // pagesize * pagesize
    nev = len(ev)
    # --- process kill: every prefix of the writes, the last possibly short (512-byte granularity)
    for j in range(len(writes) + 1):
        img = apply_writes(pre, [(o, d) for _, o, d in writes[:j]], length)
        # a process kill after commit returned: everything it wrote is in the page cache
        after = j == len(writes) and commit["outcome"] == "ok" and bool(ev) and ev[-1][0] == "S"
        yield ("kill-%d" % j, "kill", after, img)
        if j < len(writes):
            _, o, d = writes[j]
            if len(d) > 512:
                cut = (len(d) // 2) // 512 * 512 or 512
                yield ("kill-%d-short%d" % (j, cut), "kill", False, apply_writes(img, [(o, d[:cut])], length))
    # --- power loss at every point: durable = writes before the last completed sync, any subset of the rest
    points = list(range(nev + 1))
    if quick and len(points) > 8:
        points = sorted(set([0, 1, nev, nev - 1, nev - 2] + r.sample(points, 4)))
    for pt in points:
        if pt < 0:
            continue
        done = ev[:pt]
        last_sync = max([i for i, e in enumerate(done) if e[0] == "S"], default=-1)
        durable = [(e[1], e[2]) for e in done[:last_sync + 1] if e[0] == "W"]
        pending = [(e[1], e[2]) for e in done[last_sync + 1:] if e[0] == "W"]
        base = apply_writes(pre, durable, length)
        after = pt == nev and commit["outcome"] == "ok"
        if not pending:
            yield ("power-%d-none" % pt, "power", after, base)
            continue
        subsets = []
        n = len(pending)
        for k in range(n):  # every single omission
            subsets.append([i for i in range(n) if i != k])
        subsets.append([])
        subsets.append([n - 1])  # only the last write (the header, when it is pending)
        for _ in range(3 if quick else 12):
            subsets.append([i for i in range(n) if r.random() < 0.5])
        seen = set()
        for ss in subsets:
            key = tuple(ss)
            if key in seen:
                continue
            seen.add(key)
            yield ("power-%d-sub%s" % (pt, "".join(str(x % 10) for x in ss)[:12] or "0"), "power", after, apply_writes(base, [pending[i] for i in ss], length))
        # sector tears of one surviving data write
        for _ in range(2 if quick else 8):
            k = r.randrange(n)
            o, d = pending[k]
            if len(d) >= 1024:
                secs = [i for i in range(0, len(d), 512) if r.random() < 0.5]
                torn = [(o + i, d[i:i + 512]) for i in secs]
                yield ("power-%d-tear%d" % (pt, k), "power", after, apply_writes(apply_writes(base, pending[:k] + pending[k + 1:], length), torn, length))
        # the header record torn at 8-byte words (all other pending writes present)
        o, d = pending[-1]
        if o in (0, pagesize) and len(d) == pagesize:
            old = base[o:o + pagesize]
            words = [w for w in range(0, 128, 8) if old[w:w + 8] != d[w:w + 8]]
            masks = list(range(1, 2 ** len(words) - 1))
            if len(masks) > (24 if quick else 512):
                masks = r.sample(masks, 24 if quick else 512)
            full = apply_writes(base, pending[:-1], length)
            for mk in masks:
                part = [(o + w, d[w:w + 8]) for bi, w in enumerate(words) if mk >> bi & 1]
                yield ("power-%d-hdrtear%x" % (pt, mk), "power", False, apply_writes(full, part, length))


def crash_history(seed, idx, quick):
    """histories with small and large transactions, bucket deletes, page reuse, file growth"""
    prof = {"families": ["deep", "tiny", "short"], "txs": 4 if quick else 8, "ops": 40, "p_drop": 0.1, "p_reopen": 0.0, "p_dbcheck": 0.0,
            "p_bucket_ops": 0.2, "file": False, "numpages": 16, "big_values": idx % 3 == 0}
    # every other history runs under strict mode (the commit then runs its own check between the data pages and
    # the header); a write transaction that changes nothing is committed as well (it still moves the free list)
    prof["strict"] = idx % 2
    g = jgen.HistGen(seed * 9176 + idx, prof)
    h = g.history("crash%d" % idx)
    out = []
    n = 0
    for l in h:
        if l == "close":
            t = 90000 + idx
            out += ["begin %d w" % t, "commit %d" % t, "begin %d r" % (t + 1000), "dump %d" % (t + 1000), "drop %d" % (t + 1000)]
        out.append(l)
    return out
