#!/usr/bin/env python3
"""Translator for the public API surface (C14): nightly rustdoc JSON of /repo -> lean/Jamm/Gen/Api.lean.

For every public method / trait method of every public type (and of `Bytes`, which is reachable through
`ToBytes`), the table records the lifetimes its output type mentions (with `Self`, associated types and
`impl Trait` bindings expanded; an elided output lifetime is recorded as borrowing from `self`), whether
the output can hold bytes of the memory map, and the lifetime parameters of the receiver.  Struct fields
(private ones included) feed the auto-trait (`Send`) evaluation.  The JSON is cached on the hash of src/."""
import hashlib
import json
import os
import subprocess
import sys

REPO = "/repo"
WORK = "/verif/.work"
OUT = "/verif/lean/Jamm/Gen"

# types that can hold a slice of the memory map (least fixpoint is re-derived in Lean from the fields;
# this list only seeds `&[u8]`-returning accessors)
MAPPED_SEED = {"Bytes", "Mmap"}
MAP_OWNERS = {"DB", "DBInner", "OpenOptions"}


def src_hash():
    h = hashlib.sha1()
    for f in sorted(os.listdir(os.path.join(REPO, "src"))):
        h.update(f.encode())
        h.update(open(os.path.join(REPO, "src", f), "rb").read())
    h.update(open(os.path.join(REPO, "Cargo.toml"), "rb").read())
    return h.hexdigest()


def rustdoc_json():
    os.makedirs(WORK, exist_ok=True)
    cache = os.path.join(WORK, "api-%s.json" % src_hash())
    if os.path.exists(cache):
        return json.load(open(cache))
    env = dict(os.environ, CARGO_TARGET_DIR=os.path.join(WORK, "target-doc"), CARGO_NET_OFFLINE="true")
    p = subprocess.run(["cargo", "+nightly", "rustdoc", "--lib", "--offline", "--", "-Z", "unstable-options", "--output-format", "json", "--document-private-items"],
                       cwd=REPO, env=env, capture_output=True, text=True)
    if p.returncode != 0:
        raise RuntimeError("rustdoc failed: " + p.stderr[-800:])
    d = json.load(open(os.path.join(WORK, "target-doc", "doc", "jammdb.json")))
    for f in os.listdir(WORK):
        if f.startswith("api-") and f.endswith(".json"):
            os.remove(os.path.join(WORK, f))
    json.dump(d, open(cache, "w"))
    return d


class Api:
    def __init__(self, d):
        self.d = d
        self.idx = d["index"]

    def item(self, i):
        return self.idx.get(str(i))

    def type_name(self, t):
        if t and "resolved_path" in t:
            return t["resolved_path"]["path"].split("::")[-1]
        return None

    def lifetimes(self, t, self_lts, assoc, depth=0):
        """set of lifetime names mentioned by type t.  `'_` (elided) is reported as "'self"."""
        out = set()
        if t is None or depth > 8:
            return out
        k = list(t.keys())[0]
        v = t[k]
        if k == "resolved_path":
            args = v.get("args") or {}
            for x in (args.get("angle_bracketed") or {}).get("args", []):
                if "lifetime" in x:
                    out.add("'self" if x["lifetime"] == "'_" else x["lifetime"])
                elif "type" in x:
                    out |= self.lifetimes(x["type"], self_lts, assoc, depth + 1)
            for c in (args.get("angle_bracketed") or {}).get("constraints", []):
                b = c.get("binding", {})
                if "equality" in b and "type" in b["equality"]:
                    out |= self.lifetimes(b["equality"]["type"], self_lts, assoc, depth + 1)
        elif k == "borrowed_ref":
            lt = v.get("lifetime")
            out.add("'self" if lt in (None, "'_") else lt)
            out |= self.lifetimes(v["type"], self_lts, assoc, depth + 1)
        elif k in ("slice", "array"):
            out |= self.lifetimes(v if k == "slice" else v["type"], self_lts, assoc, depth + 1)
        elif k == "tuple":
            for x in v:
                out |= self.lifetimes(x, self_lts, assoc, depth + 1)
        elif k == "generic":
            if v == "Self":
                out |= set(self_lts)
        elif k == "impl_trait":
            for b in v:
                tb = b.get("trait_bound")
                if tb:
                    args = (tb["trait"].get("args") or {}).get("angle_bracketed") or {}
                    for c in args.get("constraints", []):
                        bd = c.get("binding", {})
                        if "equality" in bd and "type" in bd["equality"]:
                            out |= self.lifetimes(bd["equality"]["type"], self_lts, assoc, depth + 1)
                if "outlives" in b:
                    out.add(b["outlives"])
        elif k == "qualified_path":
            # Self::Item etc.: look the associated type up in the impl
            nm = v.get("name")
            if nm in assoc:
                out |= self.lifetimes(assoc[nm], self_lts, assoc, depth + 1)
            else:
                out |= set(self_lts)
        return out

    def mentions(self, t, names, assoc, depth=0):
        """does the type mention one of the named types (or a byte slice)?"""
        if t is None or depth > 8:
            return False
        k = list(t.keys())[0]
        v = t[k]
        if k == "resolved_path":
            if v["path"].split("::")[-1] in names:
                return True
            args = (v.get("args") or {}).get("angle_bracketed") or {}
            for x in args.get("args", []):
                if "type" in x and self.mentions(x["type"], names, assoc, depth + 1):
                    return True
            for c in args.get("constraints", []):
                b = c.get("binding", {})
                if "equality" in b and "type" in b["equality"] and self.mentions(b["equality"]["type"], names, assoc, depth + 1):
                    return True
            return False
        if k == "borrowed_ref":
            inner = v["type"]
            if "slice" in inner and inner["slice"].get("primitive") == "u8":
                return "&[u8]" in names
            return self.mentions(inner, names, assoc, depth + 1)
        if k == "slice":
            return self.mentions(v, names, assoc, depth + 1)
        if k == "tuple":
            return any(self.mentions(x, names, assoc, depth + 1) for x in v)
        if k == "generic":
            return v == "Self" and "Self" in names
        if k == "impl_trait":
            for b in v:
                tb = b.get("trait_bound")
                if tb:
                    args = (tb["trait"].get("args") or {}).get("angle_bracketed") or {}
                    for c in args.get("constraints", []):
                        bd = c.get("binding", {})
                        if "equality" in bd and "type" in bd["equality"] and self.mentions(bd["equality"]["type"], names, assoc, depth + 1):
                            return True
            return False
        if k == "qualified_path":
            nm = v.get("name")
            if nm in assoc:
                return self.mentions(assoc[nm], names, assoc, depth + 1)
            return "Self" in names
        return False

    def field_type_names(self, t, depth=0):
        """named types occurring in a field type (for the auto-trait evaluation)"""
        out = []
        if t is None or depth > 8:
            return out
        k = list(t.keys())[0]
        v = t[k]
        if k == "resolved_path":
            out.append(v["path"].split("::")[-1])
            args = (v.get("args") or {}).get("angle_bracketed") or {}
            for x in args.get("args", []):
                if "type" in x:
                    out += self.field_type_names(x["type"], depth + 1)
        elif k == "borrowed_ref":
            out.append("&")
            out += self.field_type_names(v["type"], depth + 1)
        elif k == "raw_pointer":
            out.append("*")
        elif k in ("slice",):
            out += self.field_type_names(v, depth + 1)
        elif k == "tuple":
            for x in v:
                out += self.field_type_names(x, depth + 1)
        elif k == "generic":
            out.append("param:" + v)
        return out


def gen_api():
    d = rustdoc_json()
    a = Api(d)
    idx = a.idx
    types = {}  # name -> (lifetime params, field type name lists)
    methods = []
    mapped_closure = set()
    # two passes: the first collects the types, from which the set of types that can hold bytes of the memory
    # map is computed as a closure over the private fields (seed: Bytes, Mmap; the owners of the map are
    # excluded: holding the database handle borrows nothing); the second evaluates the method signatures
    for pass_ in (1, 2):
      if pass_ == 2:
        known = set()
        while True:
            new = {n for n, (_, fl, _) in types.items() if n not in MAP_OWNERS and (n in MAPPED_SEED or any(x in MAPPED_SEED or x in known for f in fl for x in f))}
            if new == known:
                break
            known = new
        mapped_closure = known
        methods = []
      for k, v in idx.items():
          inner = v["inner"]
          kind = "struct" if "struct" in inner else ("enum" if "enum" in inner else None)
          if not kind or v["name"] is None:
              continue
          body = inner[kind]
          lts = [p["name"] for p in body["generics"]["params"] if "lifetime" in p["kind"]]
          fields = []
          if kind == "struct":
              sk = body["kind"]
              fids = sk.get("plain", {}).get("fields", []) if "plain" in sk else (sk.get("tuple", []) if "tuple" in sk else [])
              for fid in fids:
                  fi = a.item(fid)
                  if fi and "struct_field" in fi["inner"]:
                      fields.append(a.field_type_names(fi["inner"]["struct_field"]))
          else:
              for vid in body["variants"]:
                  vi = a.item(vid)
                  vk = vi["inner"]["variant"]["kind"]
                  fids = vk.get("tuple", []) if isinstance(vk, dict) and "tuple" in vk else (vk.get("struct", {}).get("fields", []) if isinstance(vk, dict) and "struct" in vk else [])
                  for fid in fids:
                      fi = a.item(fid)
                      if fi and "struct_field" in fi["inner"]:
                          fields.append(a.field_type_names(fi["inner"]["struct_field"]))
          types[v["name"]] = (lts, fields, v["visibility"] == "public")
          surface = v["visibility"] == "public" or v["name"] == "Bytes"
          if not surface:
              continue
          for iid in body["impls"]:
              im = idx[str(iid)]["inner"]["impl"]
              if im.get("is_synthetic") or im.get("blanket_impl"):
                  continue
              tr = im["trait"]["path"].split("::")[-1] if im["trait"] else None
              if tr in ("Debug", "PartialEq", "Eq", "PartialOrd", "Ord", "Hash", "Default", "StructuralPartialEq", "Display", "Error"):
                  continue
              assoc = {}
              for mid in im["items"]:
                  m = idx[str(mid)]
                  if "assoc_type" in m["inner"] and m["inner"]["assoc_type"].get("type"):
                      assoc[m["name"]] = m["inner"]["assoc_type"]["type"]
              # the receiver type of the impl may be a reference (`impl ToBytes for &BucketName`)
              for_t = im["for"]
              for_ref = "borrowed_ref" in for_t
              for mid in im["items"]:
                  m = idx[str(mid)]
                  if "function" not in m["inner"]:
                      continue
                  if not (m["visibility"] == "public" or tr):
                      continue
                  sig = m["inner"]["function"]["sig"]
                  out_t = sig["output"]
                  has_self = bool(sig["inputs"]) and sig["inputs"][0][0] == "self"
                  self_by_ref = has_self and ("borrowed_ref" in sig["inputs"][0][1] or for_ref)
                  self_lt = None
                  if has_self and "borrowed_ref" in sig["inputs"][0][1]:
                      self_lt = sig["inputs"][0][1]["borrowed_ref"].get("lifetime")
                  olts = a.lifetimes(out_t, lts, assoc)
                  if self_lt and self_lt in olts:
                      olts.discard(self_lt)
                      olts.add("'self")
                  # a lifetime introduced by the METHOD's own generics that no input mentions is chosen freely by
                  # the caller: it bounds nothing, whatever its name
                  for gp in m["inner"]["function"].get("generics", {}).get("params", []):
                      if "lifetime" in gp.get("kind", {}) and gp["name"] in olts:
                          used = False
                          for _, it in sig["inputs"]:
                              if gp["name"] in a.lifetimes(it, lts, assoc) or (isinstance(it, dict) and "borrowed_ref" in it and it["borrowed_ref"].get("lifetime") == gp["name"]):
                                  used = True
                          if not used:
                              olts.discard(gp["name"])
                              olts.add("'free")
                  mapped_names = mapped_closure | {"&[u8]", "Self", "KVPairs"}
                  mapped = a.mentions(out_t, mapped_names - ({"Self"} if v["name"] in ("DB", "OpenOptions") else set()), assoc)
                  methods.append({
                      "owner": v["name"], "name": m["name"], "trait": tr or "", "forRef": for_ref,
                      "hasSelf": has_self, "selfByRef": self_by_ref, "ownerLts": lts,
                      "outLts": sorted(olts), "outMapped": mapped,
                      "inputs": [n for n, _ in sig["inputs"]],
                  })
    methods.sort(key=lambda m: (m["owner"], m["trait"], m["name"], m["forRef"]))

    def q(s):
        return '"%s"' % s

    def ql(l):
        return "[" + ", ".join(q(x) for x in l) + "]"

    lines = ["/- GENERATED by /verif/tools/gen_api.py from nightly rustdoc JSON of /repo. Do not edit. -/",
             "import Jamm.Model.Api", "", "namespace Jamm.Gen", "",
             "/-- every struct / enum of the crate: name, lifetime parameters, named types occurring in each field, public? -/",
             "def apiTypes : List Jamm.ApiType := ["]
    lines.append(",\n".join("  { name := %s, lifetimes := %s, fields := [%s], isPublic := %s }" % (q(n), ql(t[0]), ", ".join(ql(f) for f in t[1]), "true" if t[2] else "false")
                            for n, t in sorted(types.items())))
    lines += ["]", "", "/-- every public method and trait method of the public types (and of `Bytes`) -/",
              "def apiMethods : List Jamm.ApiMethod := ["]
    lines.append(",\n".join("  { owner := %s, name := %s, trait_ := %s, forRef := %s, hasSelf := %s, selfByRef := %s, ownerLts := %s, outLts := %s, outMapped := %s }" % (
        q(m["owner"]), q(m["name"]), q(m["trait"]), "true" if m["forRef"] else "false", "true" if m["hasSelf"] else "false",
        "true" if m["selfByRef"] else "false", ql(m["ownerLts"]), ql(m["outLts"]), "true" if m["outMapped"] else "false") for m in methods))
    lines += ["]", "", "end Jamm.Gen", ""]
    sys.path.insert(0, os.path.dirname(os.path.abspath(__file__)))
    from gen_all import write_if_changed
    write_if_changed("Api.lean", "\n".join(lines))
    json.dump(methods, open(os.path.join(WORK, "api-methods.json"), "w"), indent=1)
    return methods


if __name__ == "__main__":
    ms = gen_api()
    print("api methods:", len(ms))
