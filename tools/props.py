"""Per-property check programmes."""
import collections
import glob
import json
import os
import re
import shutil
import sys
import time

import histcheck
import jgen
import vlib
from vlib import log

TRUSTED_BASE = [
    "Lean 4.33 kernel; axioms allowed: propext, Classical.choice, Quot.sound",
    "the specification Jamm/Model/Spec.lean and the statements in Jamm/Props",
    "correspondence harness (/verif/harness, Rust, public API of /repo built from the working tree) and Lean driver glue (lean/Driver)",
    "Rust std binary_search / sort are correct on their preconditions",
    "the verdicts of the correspondence runs are computed by compiled Lean code (driver executables jmodel / japi): the Lean compiler and runtime, and the definitions used by the driver that live outside Jamm/Model (Driver/*.lean)",
    "definitions that appear in property statements but live under Jamm/Proofs (TreeInv, GoodView/GoodSubs, Sys.runEvs, Sys.Covers, PiecesTight, TxOp) are part of what a reader of the statements must read",
]

ASSUME_COMMON = [
    "A-ovf: no 64-bit wrap-around of page ids, counters, transaction ids (model uses unbounded Nat)",
    "A-oom: allocation failure / SIGBUS on a truncated map are out of scope",
]


# ---- suites ------------------------------------------------------------------------------------
def hists_of(lines):
    return vlib.split_histories(lines)


def suite_random(seed, n, profile, prefix):
    return hists_of(jgen.gen_random(seed, n, profile, prefix))


def c01_suites(tier, seed):
    q = tier == "quick"
    s = []
    s.append(("rand-deep", suite_random(seed, 120 if q else 10000, {"families": ["deep", "short"]}, "rd")))
    s.append(("rand-mixed", suite_random(seed + 1, 80 if q else 6000, {"families": ["deep", "mid", "tiny", "short", "huge"], "txs": 5}, "rm")))
    s.append(("rand-buckets", suite_random(seed + 2, 80 if q else 6000, {"families": ["tiny", "short", "deep"], "p_bucket_ops": 0.4, "nest": 4}, "rb")))
    s.append(("rand-4096", suite_random(seed + 3, 20 if q else 1500, {"families": ["mid", "tiny", "deep"], "pagesize": 4096, "ops": 200, "txs": 4}, "r4")))
    # directed enumerations: every contiguous delete range over 1-, 2-, 3-level trees
    s.append(("growth", hists_of(jgen.gen_growth(seed, 1 if q else 8))))
    s.append(("enum-2leaf", hists_of(jgen.gen_range_deletes(5, klen=8, vlen=300, prefix="e5"))))
    s.append(("enum-12", hists_of(jgen.gen_range_deletes(12, prefix="e12", reinsert=True))))
    if q:
        import random
        r = random.Random(seed)
        rs = [(i, j) for i in range(40) for j in range(i + 1, 41)]
        r.shuffle(rs)
        s.append(("enum-40", hists_of(jgen.gen_range_deletes(40, prefix="e40", ranges=rs[:150]))))
        rs3 = rs[150:190]
        s.append(("enum-40-buckets", hists_of(jgen.gen_range_deletes(40, every_bucket=4, prefix="eb40", ranges=rs3))))
    else:
        s.append(("enum-40", hists_of(jgen.gen_range_deletes(40, prefix="e40"))))
        s.append(("enum-40-buckets", hists_of(jgen.gen_range_deletes(40, every_bucket=4, prefix="eb40"))))
        s.append(("enum-40-reinsert", hists_of(jgen.gen_range_deletes(40, prefix="er40", reinsert=True))))
    # collapse onto never-loaded pages below which a nested bucket is dirty: 2- and 3-level trees
    s.append(("keep-window-12", hists_of(jgen.gen_keep_window(12, every_bucket=3, prefix="kw12"))))
    s.append(("keep-window-5", hists_of(jgen.gen_keep_window(5, klen=8, vlen=300, every_bucket=2, prefix="kw5"))))
    ws = [(a, b) for a in range(40) for b in range(a + 1, min(40, a + 8) + 1)]
    if q:
        import random
        random.Random(seed + 5).shuffle(ws)
        ws = ws[:60]
    s.append(("keep-window-40", hists_of(jgen.gen_keep_window(40, every_bucket=4, prefix="kw40", windows=ws))))
    return s


def c07_suites(tier, seed):
    q = tier == "quick"
    prof = {"read_after_every_op": True, "p_reads": 0.05, "p_delete": 0.45, "ops": 40, "txs": 4, "p_drop": 0.3}
    s = []
    s.append(("rao-deep", suite_random(seed, 60 if q else 6000, dict(prof, families=["deep", "short"]), "wd")))
    s.append(("rao-buckets", suite_random(seed + 1, 40 if q else 4000, dict(prof, families=["tiny", "deep"], p_bucket_ops=0.35), "wb")))
    s.append(("emptied-leaves", hists_of(jgen.gen_emptied_leaves(40, seed, 40 if q else 1500))))
    return s


def c08_suites(tier, seed):
    q = tier == "quick"
    s = []
    s.append(("queries", hists_of(jgen.gen_queries(seed, 12 if q else 800))))
    prof = {"p_reads": 0.6, "p_delete": 0.15, "ops": 80, "txs": 4}
    s.append(("rand-reads", suite_random(seed, 60 if q else 6000, dict(prof, families=["deep", "short"]), "qr")))
    s.append(("prefix-queries", hists_of(jgen.gen_prefix_queries(seed, 30 if q else 120))))
    # queries inside a transaction that has emptied whole leaves at the tail / head of the key space
    s.append(("emptied-tail", hists_of(jgen.gen_emptied_leaves(40, seed + 9, 13 if q else 60))))
    # keys that are prefixes of one another, in trees whose leaves get merged
    s.append(("prefix-keys", suite_random(seed + 7, 40 if q else 4000, dict(prof, families=["prefix", "prefix", "deep"], p_delete=0.4, p_reads=0.4), "qp")))
    return s


def c05_suites(tier, seed):
    q = tier == "quick"
    chk = {"p_dbcheck": 1.0, "file": True}
    s = []
    s.append(("bucket-deletes", suite_random(seed + 10, 150 if q else 12000, dict(chk, families=["tiny", "short", "deep"], p_bucket_ops=0.5, nest=4, p_delete=0.2), "bd")))
    s.append(("rand-deep", suite_random(seed + 11, 120 if q else 9000, dict(chk, families=["deep", "short"]), "fd")))
    s.append(("rand-mixed", suite_random(seed + 12, 80 if q else 6000, dict(chk, families=["deep", "mid", "tiny", "short", "huge"], txs=5), "fm")))
    s.append(("rand-4096", suite_random(seed + 13, 20 if q else 1500, dict(chk, families=["mid", "tiny", "deep"], pagesize=4096, ops=200, txs=4), "f4")))
    import random
    r = random.Random(seed)
    rs = [(i, j) for i in range(40) for j in range(i + 1, 41)]
    r.shuffle(rs)
    s.append(("enum-40-buckets", hists_of(jgen.gen_range_deletes(40, every_bucket=4, prefix="fb40", ranges=rs[:60] if q else None))))
    s.append(("enum-40", hists_of(jgen.gen_range_deletes(40, prefix="f40", ranges=rs[60:260] if q else None))))
    s.append(("enum-2leaf", hists_of(jgen.gen_range_deletes(5, klen=8, vlen=300, prefix="f5"))))
    s.append(("keep-window-12", hists_of(jgen.gen_keep_window(12, every_bucket=3, prefix="fw12"))))
    ws = [(a, b) for a in range(40) for b in range(a + 1, min(40, a + 8) + 1)]
    if q:
        random.Random(seed + 6).shuffle(ws)
        ws = ws[:60]
    s.append(("keep-window-40", hists_of(jgen.gen_keep_window(40, every_bucket=4, prefix="fw40", windows=ws))))
    # the persisted free list swept across the length at which its page run changes (124 ids at page size 1024)
    ns = list(range(214, 236, 2 if q else 1)) + ([460] if q else list(range(452, 470)))
    s.append(("freelist-boundary", hists_of(jgen.gen_freelist_boundary(ns))))
    return s


def c06_suites(tier, seed):
    q = tier == "quick"
    return [("rollback-ro", hists_of(jgen.gen_c06(seed, 60 if q else 6000))),
            ("rollback-4096", hists_of(jgen.gen_c06(seed + 5, 10 if q else 800, pagesize=4096)))]


def c03_suites(tier, seed):
    q = tier == "quick"
    return [("readers", hists_of(jgen.gen_c03(seed, 60 if q else 6000, k_readers=4 if q else 8)))]


def c10_suites(tier, seed):
    q = tier == "quick"
    return [("soak", hists_of(jgen.gen_c10(seed, 9 if q else 48, ntx=100 if q else 1500))),
            ("readers", hists_of(jgen.gen_c03(seed + 3, 20 if q else 1500, k_readers=2)))]


C16_PAGESIZES = [1024, 1032, 2048, 3000, 4096, 5000, 16384, 65536, 1048576]


def c16_suites(tier, seed):
    import random
    q = tier == "quick"
    r = random.Random(seed)
    full = [(ps, np_, st, pop) for ps in C16_PAGESIZES for np_ in (4, 32, 1000) for st in (0, 1) for pop in (0, 1)]
    if q:
        # every page size, every page count, both strict / populate values appear; 14 of the 108 combinations
        cfgs = [(ps, r.choice([4, 32, 1000]), r.randrange(2), r.randrange(2)) for ps in C16_PAGESIZES]
        cfgs += [(1024, 4, 1, 1), (4096, 1000, 1, 0), (1032, 4, 0, 1), (5000, 32, 1, 1), (3000, 4, 1, 0)]
        nbase = 6
    else:
        cfgs = full
        nbase = 12
    s = [("configs", hists_of(jgen.gen_c16(seed, nbase, cfgs)))]
    s.append(("growth", hists_of(jgen.gen_growth(seed, 2 if q else 12))))
    # every other value the builder accepts: sizes that are not a multiple of the word size must work or
    # be refused cleanly (each history in its own probe process: a misaligned access aborts without unwinding)
    odd = [1025, 1026, 1028, 1030, 1031, 4099, 5001] if q else [1025, 1026, 1027, 1028, 1029, 1030, 1031, 2050, 3001, 4097, 4099, 4100, 5001, 9999, 65537]
    s.append(("odd-pagesizes", hists_of(jgen.gen_c16(seed + 9, 1, [(ps, 32, 0, 0) for ps in odd]))))
    # an initial page count that the first transaction fills (almost) exactly: 1322 pages is what transaction 1 of
    # gen_exact_fit needs at page size 4096 (measured on the pinned layout; the sweep is wide enough for a drift of
    # a few pages); the next commit needs a multi-page free-list run from the end of a file that has never been extended
    x = 1322
    s.append(("exact-fit", hists_of(jgen.gen_exact_fit(list(range(x - 1, x + 4)) if q else list(range(x - 12, x + 13))))))
    return s


PROPS = {
    "C03": {"suites": c03_suites, "level": "proof", "corpus": ["C03"]},
    "C10": {"suites": c10_suites, "level": "proof", "corpus": ["C10"]},
    "C06": {"suites": c06_suites, "level": "proof", "corpus": ["C06"]},
    "C16": {"suites": c16_suites, "level": "proof", "corpus": ["C16"]},
    "C05": {"suites": c05_suites, "level": "other", "corpus": ["C05", "C01"]},
    "C01": {"suites": c01_suites, "level": "proof", "corpus": ["C01", "C05", "C08", "C07"]},
    "C07": {"suites": c07_suites, "level": "proof", "corpus": ["C07", "C08"]},
    "C08": {"suites": c08_suites, "level": "proof", "corpus": ["C08", "C07"]},
}


def op_histogram(suites):
    c = collections.Counter()
    sizes = []
    for _, hs in suites:
        for h in hs:
            sizes.append(len(h))
            for l in h:
                c[l.split(" ")[0]] += 1
    return dict(c), sizes


def nontrivial(h):
    muts = sum(1 for l in h if l.split(" ")[0] in ("put", "del", "mkb", "gocb", "delb"))
    commits = sum(1 for l in h if l.startswith("commit "))
    return muts >= 3 and commits >= 1


# minimum number of comparisons each tie must make, as a fraction of the successful commits of the run
# (measured values are 2-10 times higher; a generator or driver change that silently disables a tie trips these)
TIE_FLOORS = {
    "C01": {"committed_shapes_predicted": 1.0, "overlays_predicted": 0.8, "pages_reencoded": 3.0, "commits_with_page_prediction": 0.3, "file_checks": 0.5},
    "C05": {"committed_shapes_predicted": 1.0, "overlays_predicted": 0.8, "pages_reencoded": 3.0, "commits_with_page_prediction": 0.3, "file_checks": 0.5},
    "C07": {"overlays_predicted": 2.0},
    "C03": {"free_list_protocol_commits_compared": 0.5, "file_checks": 0.5, "commits_whose_placement_first_fit_reproduces": 0.4},
    "C10": {"free_list_protocol_commits_compared": 0.5, "file_checks": 0.5, "commits_whose_placement_first_fit_reproduces": 0.5,
            "allocation_calls_replayed": 2.0, "runs_placed_on_released_pages": 1.0, "plateau_stretches_checked": 0.005},
}


def hist_runner(prop, tier, seed, scratch, spec):
    """default programme: history suites through harness + Lean driver"""
    suites = spec["suites"](tier, seed)
    corpus = []
    for cp in spec.get("corpus", [prop]):
        corpus += histcheck.load_corpus(cp)
    suites = [("corpus", corpus)] + suites
    hist, sizes = op_histogram(suites)
    results, stats, by_id = histcheck.run_suites(scratch, suites)
    fails = vlib.failing(results)
    reports = histcheck.shrink_and_report(prop, scratch, by_id, fails) if fails else []
    all_h = [h for _, hs in suites for h in hs]
    distinct = {}
    for h in all_h:
        distinct.setdefault(vlib.hist_hash(h), h)
    nt = sum(1 for h in distinct.values() if nontrivial(h))
    samples = []
    for sname, hs in suites[:4]:
        if hs:
            samples.append({"suite": sname, "history": [l[:120] for l in hs[0][:25]]})
    cov = {
        "evaluations": len(all_h),
        "distinct_nontrivial": nt,
        "rule": "histories generated from VERIF_SEED by tools/jgen.py (random profiles + directed enumerations) plus the corpus; distinct by SHA-1 of the operation lines; non-trivial = at least 3 mutating calls and one commit",
        "samples": samples,
        "traces_validated_against_impl": len(results) - len(fails),
        "suites": {sn: len(hs) for sn, hs in suites},
        "input_op_histogram": hist,
        "history_length_quartiles": quartiles(sizes),
        "impl_outcome_histogram": {k: v for k, v in stats.items() if "/" in k},
        "layer_c": {"buckets_whose_committed_shape_was_predicted_by_the_model": stats.get("layerc_buckets_compared", 0),
                    "rebalance_steps_replayed": stats.get("layerc_rebalance_steps_replayed", 0),
                    "overlay_trees_predicted_from_committed_tree_plus_leaf_edits": stats.get("overlay_trees_predicted", 0),
                    "tree_pages_whose_bytes_equal_the_model_writer_output": stats.get("pages_reencoded", 0),
                    "commits_whose_freed_pages_and_new_page_count_were_predicted": stats.get("commits_whose_freed_pages_were_predicted", 0),
                    "invariants_evaluated_on_real_trees": "Sep (wfsb), tightness (tightB / tightMB after the rebalance replay), uniform depth, no empty branch"},
    }
    # coverage floors: a tie that silently stops comparing must not pass as "nothing found"
    commits_ok = stats.get("commit/ok", 0)
    ties = {
        "commits_ok": commits_ok,
        "free_list_protocol_commits_compared": stats.get("proto_commits_compared", 0),
        "committed_shapes_predicted": stats.get("layerc_buckets_compared", 0),
        "overlays_predicted": stats.get("overlay_trees_predicted", 0),
        "pages_reencoded": stats.get("pages_reencoded", 0),
        "commits_with_page_prediction": stats.get("commits_whose_freed_pages_were_predicted", 0),
        "file_checks": stats.get("file/ok", 0),
        "extension_runs_checked_against_free_list": stats.get("extension_runs_checked_against_free_list", 0),
        "runs_placed_on_released_pages": stats.get("runs_placed_on_released_pages", 0),
        "commits_whose_placement_first_fit_reproduces": stats.get("commits_whose_placement_first_fit_reproduces", 0),
        "commits_placement_undecided": stats.get("commits_placement_undecided", 0),
        "plateau_stretches_checked": stats.get("plateau_stretches_checked", 0),
        "allocation_calls_replayed": stats.get("allocation_calls_replayed", 0),
        "free_list_vs_file_checks_at_start": stats.get("free_list_vs_file_checks_at_start", 0),
    }
    floors = TIE_FLOORS.get(prop, {})
    cov["tie_counters"] = ties
    cov["tie_floors"] = {k: "%.2f x commits_ok" % v for k, v in floors.items()}
    viol = [(p_, d, "") for p_, d in reports]
    low = ["%s=%d < %.2f x %d commits" % (k, ties[k], f, commits_ok) for k, f in floors.items() if ties[k] < f * commits_ok]
    if low and not viol:
        pth = vlib.write_replay(prop, "coverage", [], {"broken": "a correspondence tie compares far fewer cases than the histories contain: " + "; ".join(low), "tie_counters": ties})
        viol.append((pth, "correspondence coverage below its floor: " + "; ".join(low), " no-failing-input-found"))
    return {"violations": viol, "coverage": cov, "explored": len(results), "known": []}


def own_check_stream(seed, scratch, q):
    """C05, last clause ("the database's own consistency check agrees"): images of committed files whose TREE
    pages were damaged on purpose are given to the real `DB::check` and to its Lean model `implCheck`; the
    theorem `own_check_agrees` is about the model, this ties the model to the code: whenever the model
    accepts, the real check must accept.  (The converse is not demanded: the Lean decoder also bounds-checks
    values and positions the real check never reads.)"""
    import random
    import imgcheck
    pagesize, ncommits = 1024, 3
    base = imgcheck.base_history(seed + 77, ncommits, pagesize)
    res, _ = vlib.run_hist(scratch, base, name="c05own")
    if vlib.failing(res):
        msg = "base history for the own-check stream failed: %s" % list(vlib.failing(res).values())[0]["detail"][:160]
        return 0, [(msg, msg)], {}
    dbpath = scratch.db("db-%d" % scratch.n)
    L = imgcheck.layout_consts()
    r = random.Random(seed * 31 + 5)
    imgdir = os.path.join(scratch.dbdir, "ownimg")
    os.makedirs(imgdir, exist_ok=True)
    items = []
    for c in range(0, ncommits + 1):
        data = bytearray(open("%s.c%d" % (dbpath, c), "rb").read())
        os.remove("%s.c%d" % (dbpath, c))
        o = L["pgPtr"] + L["mNumPages"]
        np_ = max(int.from_bytes(data[o:o + 8], "little"), int.from_bytes(data[pagesize + o:pagesize + o + 8], "little"))
        if not (4 <= np_ <= len(data) // pagesize) or c == 0:
            continue
        data = data[:np_ * pagesize]
        for k in range(60 if q else 800):
            d = bytearray(data)
            pgno = r.randrange(2, np_)
            kind = r.random()
            if kind < 0.35:
                off = r.choice([L["pgType"], L["pgCount"], L["pgCount"] + 1, L["pgOverflow"], L["pgOverflow"] + 1, L["pgId"]])
            elif kind < 0.8:
                off = L["pgPtr"] + r.randrange(0, 160)
            else:
                off = r.randrange(0, pagesize)
            pos = pgno * pagesize + off
            d[pos] = r.choice([d[pos] ^ 1, d[pos] ^ 0x80, 0, 1, 2, 3, 4, 0xff]) & 0xff
            if d == data:
                continue
            pth = os.path.join(imgdir, "chk-c%d-%d" % (c, k))
            open(pth, "wb").write(d)
            items.append(("chk-c%d-%d" % (c, k), pth, pagesize))
    impl, model = imgcheck.parallel_probe(scratch, items)
    # an image without a verdict of the real check (its probe process died or timed out on an earlier image of the
    # same chunk, or on this one) is probed again on its own: only a verdict is compared, never the lack of one
    def noverdict(x):
        return x == "missing" or x.startswith("died") or x.startswith("notrun")
    redo = [it for it in items if noverdict(impl.get(it[0], "missing"))]
    for it in redo[:300]:
        i2, _ = imgcheck.run_probe(scratch, [it], "own-redo")
        # (alone, a probe that still dies is the real check aborting on this very image: that is a verdict)
        impl[it[0]] = i2.get(it[0], "missing")
    problems, counts = [], collections.Counter()
    for iid, pth, _ in items:
        io = impl.get(iid, "missing")
        mm = re.search(r"implcheck=(ok|err)", (model.get(iid) or ("", ""))[1] or "")
        mo = mm.group(1) if mm else ("noheader" if iid in model else "missing")
        if io == "missing" or io.startswith("notrun"):
            counts["real=missing model=%s" % mo] += 1
            continue
        real_ok = io == "chk=ok"
        counts["real=%s model=%s" % ("ok" if real_ok else "reject", mo)] += 1
        if mo == "ok" and not real_ok:
            keep = os.path.join(vlib.WORK, "replays", "C05-%s.img" % iid)
            os.makedirs(os.path.dirname(keep), exist_ok=True)
            shutil.copy(pth, keep)
            problems.append((keep, "the Lean model of the database's own check accepts a damaged image that the real check rejects (%s)" % io[:80]))
    lost = sum(v for k, v in counts.items() if "missing" in k or "noheader" in k)
    if items and lost * 10 > len(items):
        msg = "the own-check stream got no verdict for %d of %d images: %s" % (lost, len(items), dict(counts))
        problems.append((msg, msg))
    if not items:
        problems.append(("the own-check stream produced no image", "the own-check stream produced no image"))
    return len(items), problems, dict(counts)


def c05_runner(prop, tier, seed, scratch, spec):
    res = hist_runner(prop, tier, seed, scratch, spec)
    n, problems, counts = own_check_stream(seed, scratch, tier == "quick")
    for keep, why in problems[:3]:
        if isinstance(keep, str) and os.path.exists(keep):
            res["violations"].append((keep, why, ""))
        else:
            p_ = vlib.write_replay(prop, "own-check-base", [], {"detail": keep if isinstance(keep, str) else str(keep)})
            res["violations"].append((p_, str(keep)[:200], ""))
    res["coverage"]["own_check_on_damaged_tree_images"] = {"images": n, "verdict_pairs": counts,
        "rule": "single-byte damage in a tree page (header fields, element records, anywhere) of committed files; real DB::check vs Lean implCheck; a model-accepts/real-rejects pair is a violation"}
    res["explored"] = res.get("explored", 0) + n
    return res


def c05_replay(prop, replay, scratch):
    if not replay.endswith(".img"):
        return hist_replay(prop, replay, scratch)
    import imgcheck
    impl, model = imgcheck.run_probe(scratch, [("chk-replay", replay, 1024)], "replay")
    io = impl.get("chk-replay", "missing")
    mm = re.search(r"implcheck=(ok|err)", (model.get("chk-replay") or ("", ""))[1] or "")
    print("REPLAY real=%s model=%s" % (io[:200], mm.group(1) if mm else "?"))
    if mm and mm.group(1) == "ok" and io != "chk=ok":
        print("VIOLATION property=%s replay=%s" % (prop, replay))
        return 1
    return 0


PROPS["C05"]["runner"] = c05_runner
PROPS["C05"]["replay"] = c05_replay


def hist_replay(prop, replay, scratch):
    lines = [l.rstrip("\n") for l in open(replay) if l.strip() and not l.startswith("#")]
    if not lines:
        print("replay file names a broken obligation, nothing to execute:")
        print(open(replay).read())
        return 1
    res, _ = vlib.run_hist(scratch, lines, name="replay")
    bad = vlib.failing(res)
    for k, v in res.items():
        print("REPLAY %s %s %s" % (k, v["status"], v["detail"][:600]))
    if bad:
        print("VIOLATION property=%s replay=%s" % (prop, replay))
        return 1
    return 0


def run(prop, tier, seed, replay, t0):
    spec = PROPS[prop]
    b = vlib.build(prop)
    thms, auditlog = ([], None)
    if b.lean_ok:
        thms, auditlog = vlib.audit(prop)
    forb = vlib.scan_forbidden()
    thms = [t for t in thms if not re.search(r"(sizeOf_spec|injEq|noConfusion|\.rec$|\.casesOn$)", t["name"])]
    bad_thms = [t for t in thms if not t["ok"]]
    obligations_broken = list(b.failed_obligations)
    # the property theorems this check stands for (committed list): one that disappears or is renamed is a
    # broken obligation, so that a statement cannot be dropped silently
    try:
        expected = json.load(open(os.path.join(vlib.ROOT, "tools", "expected_theorems.json"))).get(prop, [])
    except (OSError, ValueError):
        expected = []
    if b.lean_ok and thms:
        have = {t["name"] for t in thms}
        for name in expected:
            if name not in have:
                obligations_broken.append("property theorem Jamm.Props.%s.%s is no longer present" % (prop, name))
    if b.lean_ok and not thms:
        obligations_broken.append("audit found no theorem in Jamm.Props.%s (%s)" % (prop, (auditlog or ("", ""))[1][-300:]))
    for t in bad_thms:
        obligations_broken.append("theorem %s depends on axioms %s" % (t["name"], t["axioms"]))
    for hpos in forb:
        obligations_broken.append("forbidden construct " + hpos)
    rechecked = None
    if tier == "thorough" and b.lean_ok and not replay:
        why = vlib.recheck(prop)
        rechecked = why is None
        if why:
            obligations_broken.append("independent re-check of Jamm.Props.%s failed: %s" % (prop, why))

    scratch = vlib.Scratch(prop)
    try:
        if not b.harness_ok:
            p = vlib.write_replay(prop, "harness-build", [], {"broken": "the correspondence harness no longer builds against /repo", "log": b.messages[-1][-1500:]})
            print("VIOLATION property=%s replay=%s no-failing-input-found" % (prop, p))
            vlib.write_evidence(prop, tier, seed, "other", {"explanation": "harness build failed; nothing explored", "evaluations": 0, "distinct_nontrivial": 0}, ASSUME_COMMON, time.time() - t0, 1)
            return 1
        if replay:
            return spec.get("replay", hist_replay)(prop, replay, scratch)

        search_tier = tier if not obligations_broken else "thorough"
        res = spec.get("runner", hist_runner)(prop, search_tier, seed, scratch, spec)
        violations = list(res["violations"])
        for k in res.get("known", []):
            print("KNOWN-FINDING: property=%s %s" % (prop, k))
        if obligations_broken and not violations:
            p = vlib.write_replay(prop, "obligation", [], {"broken_obligations": obligations_broken, "searched": "%d cases at %s volume, none failed" % (res.get("explored", 0), search_tier)})
            violations.append((p, "proof obligation no longer checks: " + "; ".join(obligations_broken)[:400], " no-failing-input-found"))

        cov = {
            "obligations": len(thms) + len(obligations_broken),
            "discharged": len([t for t in thms if t["ok"]]),
            "checker_cmd": "cd /verif/lean && lake build Jamm.Props.%s && lake env lean <audit file: #audit_ns %s>" % (prop, prop),
            "trusted_base": TRUSTED_BASE + spec.get("trusted", []),
            "theorems": [{"name": t["name"], "axioms": t["axioms"]} for t in thms],
            "broken_obligations": obligations_broken,
            "leanchecker_replay_of_the_property_module": {True: "accepted", False: "REJECTED", None: "not run (thorough tier only)"}[rechecked],
            "known_findings_seen": res.get("known", []),
            "explanation": "Lean theorems (listed) are re-checked by lake build and audited for axioms; the correspondence programme runs the real code built from /repo's working tree against the Lean specification / model on the cases described under rule/samples",
        }
        cov.update(res["coverage"])
        level = spec["level"] if not obligations_broken else "other"
        vlib.write_evidence(prop, tier, seed, level, cov, ASSUME_COMMON + spec.get("assumptions", []), time.time() - t0, len(violations))
        for path, desc, suffix in violations:
            log("violation:", desc)
            print("VIOLATION property=%s replay=%s%s" % (prop, path, suffix))
        if not violations:
            print("OK property=%s tier=%s cases=%d theorems=%d wall=%.1fs" % (prop, tier, res.get("explored", 0), len(thms), time.time() - t0))
        return 1 if violations else 0
    finally:
        scratch.cleanup()


def quartiles(xs):
    if not xs:
        return []
    xs = sorted(xs)
    return [xs[0], xs[len(xs) // 4], xs[len(xs) // 2], xs[3 * len(xs) // 4], xs[-1]]


# ---- C12: damage to one header page ----------------------------------------------------------------
def c12_runner(prop, tier, seed, scratch, spec):
    import random
    import imgcheck
    q = tier == "quick"
    r = random.Random(seed)
    pagesize = 1024
    ncommits = 4 if q else 8
    base = imgcheck.base_history(seed, ncommits, pagesize)
    res, _ = vlib.run_hist(scratch, base, name="c12base")
    violations, known = [], []
    bad = vlib.failing(res)
    if bad:
        p = vlib.write_replay(prop, "base", base, {"detail": list(bad.values())[0]["detail"]})
        return {"violations": [(p, "base history failed: " + list(bad.values())[0]["detail"][:200], "")], "coverage": {"evaluations": 1, "distinct_nontrivial": 0}, "explored": 1, "known": []}
    dbpath = scratch.db("db-%d" % scratch.n)
    sig, meta_end = imgcheck.significant_offsets()
    items, info = [], {}
    imgdir = os.path.join(scratch.dbdir, "img")
    os.makedirs(imgdir, exist_ok=True)
    # undamaged bases and "newest slot zeroed" variants give D_new / D_prev through the Lean decoder
    bases = {}
    for c in range(ncommits + 1):
        data = bytearray(open("%s.c%d" % (dbpath, c), "rb").read())
        # keep only the used part (the file is extended in 8 MiB steps): the larger page count named
        # by the two headers; the Lean checker rejects an image that is too short
        L = imgcheck.layout_consts()
        o = L["pgPtr"] + L["mNumPages"]
        np_ = max(int.from_bytes(data[o:o + 8], "little"), int.from_bytes(data[pagesize + o:pagesize + o + 8], "little"))
        if 4 <= np_ <= len(data) // pagesize:
            data = data[:np_ * pagesize]
        os.remove("%s.c%d" % (dbpath, c))
        bases[c] = data
        p0 = os.path.join(imgdir, "base-c%d" % c)
        open(p0, "wb").write(data)
        items.append(("base-c%d" % c, p0, pagesize))
    impl0, model0 = imgcheck.parallel_probe(scratch, items)
    newest, dnew, dprev = {}, {}, {}
    items2 = []
    for c in range(ncommits + 1):
        m, extra = model0["base-c%d" % c]
        slot = int(re.search(r"slot=(\d+)", extra).group(1))
        newest[c] = slot
        dnew[c] = imgcheck.dump_of(m)[0]
        d = bytearray(bases[c])
        d[slot * pagesize:(slot + 1) * pagesize] = bytes(pagesize)
        p1 = os.path.join(imgdir, "prev-c%d" % c)
        open(p1, "wb").write(d)
        items2.append(("prev-c%d" % c, p1, pagesize))
    _, model1 = imgcheck.parallel_probe(scratch, items2)
    for c in range(ncommits + 1):
        dprev[c] = imgcheck.dump_of(model1["prev-c%d" % c][0])[0]
    # "the previous commit" is the state of commit c-1 (which the base history compared with the specification
    # through `file` and `dump`), not merely whatever the other header of the same file names
    for c in range(1, ncommits + 1):
        if dprev[c] is None or dprev[c] != dnew[c - 1]:
            keep = os.path.join(vlib.WORK, "replays", "C12-prev-c%d.img" % c)
            os.makedirs(os.path.dirname(keep), exist_ok=True)
            shutil.copy(os.path.join(imgdir, "prev-c%d" % c), keep)
            violations.append((keep, "with the newest header of commit %d zeroed the file does not show the state of commit %d (shows %s)" % (c, c - 1, (dprev[c] or "nothing")[:80]), ""))
            break
    # damaged images
    items = []
    n_img = 0
    classes = collections.Counter()
    for c in range(ncommits + 1):
        for slot in (0, 1):
            muts = []
            for off in range(0, meta_end + 8):
                vals = [0xFF, 0x01, 0x80] if q else list(range(1, 256))
                if q and off not in sig:
                    vals = [0xFF]
                for x in vals:
                    muts.append(("b%d-%02x" % (off, x), [(off, None, x)]))
            for off in (r.sample(range(meta_end + 8, pagesize), 6 if q else 60)):
                muts.append(("t%d" % off, [(off, None, 0xFF)]))
            muts.append(("zero", [(o, 0, None) for o in range(pagesize)]))
            muts.append(("zero-record", [(o, 0, None) for o in range(32, meta_end)]))
            for k in range(4 if q else 40):
                n = r.randrange(2, 12)
                muts.append(("rnd%d" % k, [(r.randrange(0, meta_end + 8), r.randrange(256), None) for _ in range(n)]))
            for k in range(2 if q else 10):
                a = r.randrange(0, pagesize - 64)
                muts.append(("blk%d" % k, [(a + i, r.randrange(256), None) for i in range(r.randrange(8, 64))]))
            for name, edits in muts:
                d = bytearray(bases[c])
                changed = set()
                for off, setv, xorv in edits:
                    o = slot * pagesize + off
                    old = d[o]
                    d[o] = setv if setv is not None else (old ^ xorv)
                    if d[o] != old:
                        changed.add(off)
                iid = "c%d-s%d-%s" % (c, slot, name)
                pth = os.path.join(imgdir, iid)
                open(pth, "wb").write(d)
                items.append((iid, pth, pagesize))
                info[iid] = (c, slot, changed)
                n_img += 1
    impl, model = imgcheck.parallel_probe(scratch, items)
    n_ok = 0
    seen_sig = set()
    for iid, pth, _ in items:
        c, slot, changed = info[iid]
        io = impl.get(iid, "missing")
        mo = model.get(iid, ("missing", ""))[0]
        own = imgcheck.own_check_mismatch(impl.get(iid, ""), model.get(iid))
        harmless = not (changed & sig)
        cls = ("newest" if slot == newest[c] else "older") + ("-harmless" if harmless else "-significant")
        classes[cls] += 1
        idump, ichk = imgcheck.dump_of(io)
        # what the property demands
        if slot != newest[c] or harmless or not changed:
            want = dnew[c]
        else:
            want = None  # newest header damaged in a checked byte: previous commit, unless the damage left the record valid and equal (impossible for a single byte: theorem)
        problem = None
        if idump is None:
            problem = "open did not succeed: %s" % io[:80]
        elif ichk != "ok":
            problem = "DB::check fails on the state shown: %s" % ichk
        elif want is not None and idump != want:
            problem = "shows a state other than the newest commit although the %s header was damaged%s" % ("older" if slot != newest[c] else "newest", " outside every checked byte" if harmless else "")
        elif want is None and idump not in (dprev[c], dnew[c]):
            problem = "shows neither the previous nor the newest commit"
        elif want is None and idump == dnew[c] and len(changed) == 1 and c > 0 and dprev[c] != dnew[c]:
            # (after a commit that changed nothing the two states have the same contents: which header was used
            # cannot be told from the contents; the model's verdict, compared below, still applies)
            problem = "a header with one damaged checked byte (offset %d) was trusted" % list(changed)[0]
        if problem is None and io != mo:
            problem = "model and implementation disagree: model=%s" % mo[:100]
        if problem is None and own:
            problem = own
        if problem is None:
            n_ok += 1
            continue
        s_ = problem[:40]
        if s_ in seen_sig or len(violations) >= 3:
            continue
        seen_sig.add(s_)
        os.makedirs(os.path.join(vlib.WORK, "replays"), exist_ok=True)
        keep = os.path.join(vlib.WORK, "replays", "C12-%s.img" % iid)
        shutil.copy(pth, keep)
        violations.append((keep, "%s: %s (image of commit %d, slot %d, offsets %s)" % (iid, problem, c, slot, sorted(changed)[:6]), ""))
    cov = {
        "evaluations": n_img,
        "distinct_nontrivial": n_img,
        "rule": "every image is a distinct single- or multi-byte damage of one header page of the file after commit count 0..%d (all offsets 0..%d with %s, zeroing, random overwrites, sampled tail offsets), opened by the real code (probe process) and by the Lean model; non-trivial = at least one byte differs" % (ncommits, meta_end + 7, "3 values (1 outside checked bytes)" if q else "all 255 values"),
        "samples": [{"image": i, "commit": info[i][0], "slot": info[i][1], "changed_offsets": sorted(info[i][2])[:8], "impl": impl.get(i, "")[:60]} for i, _, _ in items[:3] + items[-2:]],
        "traces_validated_against_impl": n_ok,
        "damage_classes": dict(classes),
        "replay_format": "a damaged database image: ./check C12 --replay <img> opens it with the real code and the model",
    }
    lowc = [k_ for k_ in ("newest-significant", "newest-harmless", "older-significant", "older-harmless") if classes.get(k_, 0) < ncommits]
    if (lowc or n_img < 100 * ncommits) and not violations:
        pth = vlib.write_replay(prop, "coverage", [], {"broken": "damage classes (nearly) absent: %s; images=%d" % (lowc, n_img)})
        violations.append((pth, "damaged-image coverage below its floor: classes %s, %d images" % (lowc, n_img), " no-failing-input-found"))
    return {"violations": violations, "coverage": cov, "explored": n_img, "known": known}


def c12_replay(prop, replay, scratch):
    import imgcheck
    impl, model = imgcheck.run_probe(scratch, [("replay", replay, 1024)], "replay")
    print("REPLAY impl=%s" % impl.get("replay", "")[:300])
    print("REPLAY model=%s" % model.get("replay", ("", ""))[0][:300])
    if impl.get("replay") != model.get("replay", ("", ""))[0]:
        print("VIOLATION property=%s replay=%s" % (prop, replay))
        return 1
    return 0


PROPS["C12"] = {"runner": c12_runner, "replay": c12_replay, "level": "proof"}


# ---- C15: files written by earlier versions -----------------------------------------------------------
GOLDEN_SIZES = [1024, 4096, 5000, 16384]


def golden_history(gdir, ps, kind, seed, v, r, extra=None, ntx=3, reopen=True, prefix="gold-cont"):
    """a history that starts from a copy of the golden file of page size `ps` (kind "" = current header
    format, "-legacy" = the pinned release's format) and commits further transactions on top of it"""
    ops = [l.rstrip("\n") for l in open(os.path.join(gdir, "golden-%d.ops" % ps)) if l.strip()]
    src_ = os.path.join(gdir, "golden-%d%s.db" % (ps, kind))
    prof = {"pagesize": ps, "numpages": 64, "families": ["tiny", "short", "mid"], "txs": 3, "ops": 30, "p_reopen": 0.4, "p_dbcheck": 1.0}
    prof.update(extra or {})
    g = jgen.HistGen(seed * 31 + ps + v + (7 if kind else 0), prof)
    g.next_tx, g.next_h = 1000, 1000
    lines = ["hist %s-%d%s-%d" % (prefix, ps, kind, v), "cfg pagesize=%d numpages=64 strict=%d populate=0" % (ps, v % 2), "open"] + ops + ["usefile %s" % src_, "open"]
    # the shadow must know the golden contents to generate valid operations: replay the creating ops into it
    sh_ = jgen.Shadow()
    hmap = {}
    for o in ops:
        f = o[1:].split(" ")
        if f[0] in ("mkb", "getb", "gocb"):
            parent = sh_ if f[3] == "0" else hmap[f[3]]
            name = bytes.fromhex(f[4]) if f[4] != "-" else b""
            parent.items.setdefault(name, jgen.Shadow())
            hmap[f[2]] = parent.items[name]
        elif f[0] == "put":
            k = bytes.fromhex(f[3]) if f[3] != "-" else b""
            hmap[f[2]].items[k] = b"v"
        elif f[0] == "del":
            k = bytes.fromhex(f[3]) if f[3] != "-" else b""
            hmap[f[2]].items.pop(k, None)
    g.committed = sh_
    g.emit("begin 999 r")
    g.emit("dump 999")
    g.emit("drop 999")
    for _ in range(ntx):
        g.write_tx(r.randrange(5, 40))
        g.verify()
        if prof.get("p_dbcheck"):
            g.emit("dbcheck")
    if reopen:
        g.emit("reopen")
        g.verify()
    g.emit("close")
    return lines + g.lines


def c15_runner(prop, tier, seed, scratch, spec):
    import hashlib
    import random
    import imgcheck
    q = tier == "quick"
    r = random.Random(seed)
    gdir = os.path.join(vlib.ROOT, "golden")
    violations = []
    n_cases = 0
    n_ok = 0
    samples = []
    # (a) every golden file (current and legacy header) opens with identical logical contents, in the
    #     real code and in the Lean reader that encodes the pinned layout
    items, want = [], {}
    work = os.path.join(scratch.dbdir, "gold")
    os.makedirs(work, exist_ok=True)
    for ps in GOLDEN_SIZES:
        dump = open(os.path.join(gdir, "golden-%d.dump" % ps)).read().strip()
        for kind in ("", "-legacy"):
            name = "golden-%d%s" % (ps, kind)
            dst = os.path.join(work, name + ".db")
            shutil.copy(os.path.join(gdir, name + ".db"), dst)
            items.append((name, dst, ps))
            want[name] = dump
    impl, model = imgcheck.parallel_probe(scratch, items, jobs=4)
    for name, dst, ps in items:
        n_cases += 1
        io, mo = impl.get(name, "missing"), model.get(name, ("missing", ""))[0]
        own = imgcheck.own_check_mismatch(io, model.get(name))
        idump, ichk = imgcheck.dump_of(io)
        problem = None
        if idump != want[name]:
            problem = "contents differ from what the pinned release wrote (or open failed): %s" % io[:100]
        elif ichk != "ok":
            problem = "DB::check fails on a golden file: %s" % ichk
        elif mo != io:
            problem = "the pinned-layout Lean reader disagrees with the implementation: %s" % mo[:100]
        elif hashlib.sha1(open(dst, "rb").read()).hexdigest() != hashlib.sha1(open(os.path.join(gdir, name + ".db"), "rb").read()).hexdigest():
            problem = "opening and reading the file (no write transaction) changed its bytes"
        if problem is None and own:
            problem = own
        if problem:
            keep = os.path.join(vlib.WORK, "replays", "C15-%s.db" % name)
            os.makedirs(os.path.dirname(keep), exist_ok=True)
            shutil.copy(os.path.join(gdir, name + ".db"), keep)
            violations.append((keep, "%s: %s" % (name, problem), ""))
        else:
            n_ok += 1
    samples.append({"golden": items[0][0], "impl": impl.get(items[0][0], "")[:100]})
    # (b) further commits on top of every golden file refine the specification started from its contents
    hists = []
    for ps in GOLDEN_SIZES:
        ops = [l.rstrip("\n") for l in open(os.path.join(gdir, "golden-%d.ops" % ps)) if l.strip()]
        for kind in ("", "-legacy"):
            src_ = os.path.join(gdir, "golden-%d%s.db" % (ps, kind))
            for v in range(1 if q else 6):
                hists.append(golden_history(gdir, ps, kind, seed, v, r))
    results, stats, by_id = histcheck.run_suites(scratch, [("golden-continue", hists)])
    fails = vlib.failing(results)
    n_cases += len(results)
    n_ok += len(results) - len(fails)
    for pth, desc in (histcheck.shrink_and_report(prop, scratch, by_id, fails) if fails else []):
        violations.append((pth, desc, ""))
    # (c) opening with a different page size is refused and leaves the file untouched
    items = []
    hashes = {}
    for ps in GOLDEN_SIZES:
        for kind in ("", "-legacy"):
            for other in [1024, 2048, 4096, 5000, 8192, 16384, 32768]:
                if other == ps:
                    continue
                name = "mis-%d%s-as-%d" % (ps, kind, other)
                dst = os.path.join(work, name + ".db")
                shutil.copy(os.path.join(gdir, "golden-%d%s.db" % (ps, kind)), dst)
                hashes[name] = hashlib.sha1(open(dst, "rb").read()).hexdigest()
                items.append((name, dst, other))
    impl, model = imgcheck.parallel_probe(scratch, items, jobs=4)
    for name, dst, other in items:
        n_cases += 1
        io, mo = impl.get(name, "missing"), model.get(name, ("missing", ""))[0]
        own = imgcheck.own_check_mismatch(io, model.get(name))
        after = hashlib.sha1(open(dst, "rb").read()).hexdigest()
        problem = None
        if not io.startswith("panic:") and not io.startswith("err:"):
            problem = "a file with another page size was not refused: %s" % io[:80]
        elif after != hashes[name]:
            problem = "the refused open modified the file"
        elif io != mo:
            problem = "refused differently from the model: impl=%s model=%s" % (io[:40], mo[:40])
        if problem is None and own:
            problem = own
        if problem:
            keep = os.path.join(vlib.WORK, "replays", "C15-%s.db" % name)
            shutil.copy(dst, keep)
            violations.append((keep, "%s: %s" % (name, problem), ""))
        else:
            n_ok += 1
    samples.append({"mismatch": items[0][0], "impl": impl.get(items[0][0], "")})
    cov = {
        "evaluations": n_cases,
        "distinct_nontrivial": n_cases,
        "rule": "golden files written by the pinned release at page sizes 1024/4096/5000/16384 (nested buckets, multi-page values, empty key, non-empty free list) and their legacy-header rewrites: (a) opened by the real code and by the Lean reader with the pinned layout, contents compared with the dump recorded at creation; (b) continued by random transactions, every outcome/dump/file compared with the specification started from the golden contents; (c) opened with every other page size of a fixed list: must be refused, bytes unchanged",
        "samples": samples,
        "traces_validated_against_impl": n_ok,
        "exhaustive": False,
    }
    return {"violations": violations[:4], "coverage": cov, "explored": n_cases, "known": []}


def c15_replay(prop, replay, scratch):
    if replay.endswith(".hist"):
        return hist_replay(prop, replay, scratch)
    import imgcheck
    rc = 0
    for ps in GOLDEN_SIZES:
        impl, model = imgcheck.run_probe(scratch, [("replay", replay, ps)], "replay%d" % ps)
        print("REPLAY pagesize=%d impl=%s" % (ps, impl.get("replay", "")[:200]))
        print("REPLAY pagesize=%d model=%s" % (ps, model.get("replay", ("", ""))[0][:200]))
        if impl.get("replay") != model.get("replay", ("", ""))[0]:
            rc = 1
    if rc:
        print("VIOLATION property=%s replay=%s" % (prop, replay))
    return rc


PROPS["C15"] = {"runner": c15_runner, "replay": c15_replay, "level": "proof"}


# ---- C02: crash images -----------------------------------------------------------------------------
def run_under_shim(scratch, lines, tag, extra_env=None):
    import crashcheck
    crashcheck.ensure_shim()
    cdir = os.path.join(scratch.dbdir, "crash-" + tag)
    os.makedirs(cdir, exist_ok=True)
    logp = os.path.join(cdir, "io.log")
    env = {"LD_PRELOAD": crashcheck.SHIM, "JSHIM_LOG": logp, "JSHIM_PATH": "jverif-", "JH_CRASH_DIR": cdir}
    if extra_env:
        env.update(extra_env)
    res, stats = vlib.run_hist(scratch, lines, name=tag, harness_env=env)
    trace = scratch.path("%s-%d.trace" % (tag, scratch.n))
    return res, trace, logp, cdir


def dumps_by_commit(trace):
    """commit sequence number -> (dump before, dump after), read off the (Lean-verified) transcript"""
    out = {}
    seq = 0
    last = "{n=-;}"
    pending = []
    for l in open(trace, errors="replace"):
        lhs, sep, got = l.rstrip("\n").partition(" => ")
        f = lhs.split(" ")
        if f[0] == "commit":
            seq += 1
            if got == "ok":
                if pending:
                    # two commits without a dump in between: the state between them was not observed, so
                    # neither can be attributed (never guessed)
                    for s_ in pending:
                        out[s_] = [None, None]
                    out[seq] = [None, None]
                    last = None
                else:
                    out[seq] = [last, None]
                pending.append(seq)
            else:
                out[seq] = [last, last]
        elif f[0] == "dump" and sep:
            for s_ in pending:
                if out[s_][0] is not None:
                    out[s_][1] = got
            if pending:
                pending = []
            last = got
    return out


def c02_runner(prop, tier, seed, scratch, spec):
    import random
    import crashcheck
    import imgcheck
    q = tier == "quick"
    r = random.Random(seed)
    steps = crashcheck.gen_steps_list()
    pagesize = 1024
    violations, samples = [], []
    n_img = n_ok = n_commits = n_unattributed = 0
    kinds = collections.Counter()
    items, expect = [], {}
    cow_items = []
    imgdir = os.path.join(scratch.dbdir, "cimg")
    os.makedirs(imgdir, exist_ok=True)
    # base histories: fresh files, plus files written earlier (golden files in the current and in the pinned
    # release's header format) on which further transactions are committed
    gdir = os.path.join(vlib.ROOT, "golden")
    bases = [crashcheck.crash_history(seed, idx, q) for idx in range(3 if q else 40)]
    for kind in ("", "-legacy"):
        for v in range(1 if q else 4):
            bases.append(golden_history(gdir, 1024, kind, seed, 100 + v, r, extra={"p_reopen": 0.0, "p_dbcheck": 0.0, "file": False, "p_drop": 0.1,
                                        "families": ["deep", "tiny", "short"]}, ntx=2 if q else 5, reopen=False, prefix="crash-gold"))
    for idx, h in enumerate(bases):
        res, trace, logp, cdir = run_under_shim(scratch, h, "c02h%d" % idx)
        bad = vlib.failing(res)
        if bad:
            p = vlib.write_replay(prop, "hist%d" % idx, h, {"detail": list(bad.values())[0]["detail"]})
            violations.append((p, "history failed under the shim: " + list(bad.values())[0]["detail"][:200], ""))
            continue
        commits = crashcheck.parse_log(logp)
        dumps = dumps_by_commit(trace)
        for c in commits:
            if c["outcome"] != "ok" or not c["events"]:
                continue
            n_commits += 1
            why = crashcheck.check_shape(c, steps, pagesize) if steps else None
            if why:
                p = vlib.write_replay(prop, "shape-h%d-c%d" % (idx, c["seq"]), h, {"broken": "observed I/O of commit %d does not match the regenerated step order %s" % (c["seq"], steps), "detail": why, "observed": [(e[0], e[1] if len(e) > 1 else "", len(e[2]) if len(e) > 2 else "") for e in c["events"]][:40]})
                violations.append((p, "I/O trace of commit %d differs from Gen.commitSteps: %s" % (c["seq"], why), " no-failing-input-found"))
                continue
            pre = open(os.path.join(cdir, "pre-%d.img" % c["seq"]), "rb").read()
            # copy-on-write tie (premises of the byte-level theorems of Jamm.Props.C02, evaluated by the Lean driver):
            # the file when the commit began, with its data writes, with the header write as well
            ws = [(e[1], e[2]) for e in c["events"] if e[0] == "W"]
            if ws and ws[-1][0] in (0, pagesize) and len(ws[-1][1]) == pagesize:
                ln = max([len(pre)] + [o + len(d) for o, d in ws])
                ln = (ln + pagesize - 1) // pagesize * pagesize
                mid = crashcheck.apply_writes(pre, ws[:-1], ln)
                post = crashcheck.apply_writes(mid, ws[-1:], ln)
                cid = "h%d-c%d" % (idx, c["seq"])
                paths = []
                for tag_, data_ in (("pre", crashcheck.apply_writes(pre, [], ln)), ("mid", mid), ("post", post)):
                    pp = os.path.join(imgdir, "cow-%s-%s" % (cid, tag_))
                    open(pp, "wb").write(data_)
                    paths.append(pp)
                cow_items.append("%s %s %d %s" % (cid, " ".join(paths), pagesize, " ".join("%d:%d" % (o, len(d)) for o, d in ws[:-1] if d)))
            dpre, dpost = dumps.get(c["seq"], [None, None])
            if dpost is None or dpre is None:
                n_unattributed += 1
                continue
            for name, kind, after, img in crashcheck.crash_images(c, pre, pagesize, r, q):
                iid = "h%d-c%d-%s" % (idx, c["seq"], name)
                pth = os.path.join(imgdir, iid)
                open(pth, "wb").write(img)
                items.append((iid, pth, pagesize))
                expect[iid] = (dpre, dpost, after, kind, idx, c["seq"])
                kinds[kind + ("-after-return" if after else "")] += 1
        shutil.rmtree(cdir, ignore_errors=True)
    impl, model = imgcheck.parallel_probe(scratch, items)
    # the premises of the byte-level theorems on every real commit
    n_cow_ok = 0
    cow_bad = []
    if cow_items:
        lst = scratch.path("cow.list")
        open(lst, "w").write("\n".join(cow_items) + "\n")
        rc_, o_, e_, _ = vlib.sh([vlib.JMODEL, "cow", lst], timeout=1800)
        verdicts = {}
        for l in o_.split("\n"):
            a, sep, b = l.partition(" => ")
            if sep:
                verdicts[a] = b
        for ci in cow_items:
            cid = ci.split(" ")[0]
            v = verdicts.get(cid, "cow-bad: no verdict from the model driver (rc=%s)" % rc_)
            if v.startswith("cow-ok"):
                n_cow_ok += 1
            else:
                cow_bad.append((cid, v, ci))
    for cid, v, ci in cow_bad[:2]:
        f_ = ci.split(" ")
        keep = os.path.join(vlib.WORK, "replays", "C02-cow-%s.obs" % cid)
        os.makedirs(os.path.dirname(keep), exist_ok=True)
        for tag_, src_ in zip(("pre", "mid", "post"), f_[1:4]):
            shutil.copy(src_, keep[:-4] + "." + tag_ + ".img")
        open(keep, "w").write("broken: premise of Jamm.Props.C02.any_partial_commit_shows_previous_state / header_write_switches_states on a real commit\n%s => %s\nimages: %s.{pre,mid,post}.img pagesize %s\ndata writes (offset:length): %s\n" % (cid, v, keep[:-4], f_[4], " ".join(f_[5:])))
        # a commit that overwrites pages of the state it started from has a crash image that shows a mix: the
        # image stream normally exhibits it; when it does not, the broken premise is reported on its own
        violations.append((keep, "commit %s: %s" % (cid, v[:200]), " no-failing-input-found"))
    seen = set()
    for iid, pth, _ in items:
        n_img += 1
        dpre, dpost, after, kind, idx, seq = expect[iid]
        io = impl.get(iid, "missing")
        mo = model.get(iid, ("missing", ""))[0]
        own = imgcheck.own_check_mismatch(impl.get(iid, ""), model.get(iid))
        idump, ichk = imgcheck.dump_of(io)
        problem = None
        if idump is None:
            problem = "reopening the crash image did not succeed: %s" % io[:100]
        elif ichk != "ok":
            problem = "the crash image is not structurally sound: %s" % ichk[:80]
        elif idump not in (dpre, dpost):
            problem = "shows neither the state before nor the state after the interrupted commit"
        elif after and idump != dpost:
            problem = "commit had returned success but its effects did not survive"
        elif io != mo:
            problem = "the Lean model (decoder + checker) disagrees: %s" % mo[:100]
        if problem is None and own:
            problem = own
        if problem is None:
            n_ok += 1
            continue
        sg = (problem[:30], kind)
        if sg in seen or len(violations) >= 4:
            continue
        seen.add(sg)
        keep = os.path.join(vlib.WORK, "replays", "C02-%s.img" % iid)
        os.makedirs(os.path.dirname(keep), exist_ok=True)
        shutil.copy(pth, keep)
        violations.append((keep, "%s (%s, history %d commit %d): %s" % (iid, kind, idx, seq, problem), ""))
    if items:
        samples = [{"image": i, "kind": expect[i][3], "after_return": expect[i][2], "impl": impl.get(i, "")[:60]} for i, _, _ in items[:2] + items[-2:]]
    cov = {
        "evaluations": n_img,
        "distinct_nontrivial": n_img,
        "rule": "for every successful commit of the generated histories (small/large transactions, bucket deletes, growth, page reuse), from the libc calls logged by the LD_PRELOAD shim: every prefix of the writes, the last possibly short (kill); at every point, all single omissions / sampled subsets of the writes since the last completed sync, sector tears, header word tears (power loss); each image opened by the real code and by the Lean model. The observed I/O sequence of each commit is first checked against the regenerated step order.",
        "samples": samples,
        "traces_validated_against_impl": n_ok,
        "commits": n_commits,
        "commits_without_an_observed_state_before_and_after": n_unattributed,
        "image_kinds": dict(kinds),
        "commit_step_order": steps,
        "cow_premises": {"commits_evaluated": len(cow_items), "ok": n_cow_ok, "what": "per real commit, by the Lean driver (jmodel cow): no data write touches a header page or a page owned by the decoded state the commit began from; the file without the header write decodes to exactly the previous state; the new header goes to the other slot with a greater id; the state it names is readable from the file before the header write; the new state owns no header page; every page of the new state was either written by this commit or is a page of the previous state (the copy-on-write structure SharedV) — the premises of Jamm.Props.C02.any_partial_commit_shows_previous_state, header_write_switches_states and whole_copy_on_write_commit_is_atomic"},
        "floors": "at least one logged commit per base history, every image kind present, at most 10%% of the commits unattributed, at least 20 images per commit, the copy-on-write premises evaluated on at least 90%% of the logged commits",
    }
    low = []
    if n_commits < len(bases):
        low.append("only %d commits were logged by the shim for %d base histories" % (n_commits, len(bases)))
    for k_ in ("kill", "power", "power-after-return"):
        if kinds.get(k_, 0) == 0:
            low.append("no crash image of kind %s" % k_)
    if n_unattributed * 10 > max(1, n_commits):
        low.append("%d of %d commits have no observed state before and after" % (n_unattributed, n_commits))
    if n_img < 20 * max(1, n_commits - n_unattributed):
        low.append("%d images for %d commits" % (n_img, n_commits))
    if len(cow_items) * 10 < 9 * n_commits:
        low.append("copy-on-write premises evaluated on %d of %d commits" % (len(cow_items), n_commits))
    if low and not violations:
        pth = vlib.write_replay(prop, "coverage", [], {"broken": "the crash-image correspondence covers far less than the histories contain: " + "; ".join(low)})
        violations.append((pth, "crash-image coverage below its floor: " + "; ".join(low), " no-failing-input-found"))
    return {"violations": violations, "coverage": cov, "explored": n_img, "known": []}


def c02_replay(prop, replay, scratch):
    """crash images replay as in C12; a `C02-cow-*.obs` file (a broken copy-on-write premise) re-evaluates the premise
    on the three images saved next to it"""
    if replay.endswith(".obs"):
        base = replay[:-4]
        f = open(replay).read().split("\n")
        ps = "1024"
        ws = ""
        for l in f:
            if l.startswith("images:"):
                ps = l.split("pagesize ")[1].strip()
            if l.startswith("data writes"):
                ws = l.split("): ", 1)[1].strip() if "): " in l else ""
        lst = scratch.path("cow-replay.list")
        open(lst, "w").write("replay %s.pre.img %s.mid.img %s.post.img %s %s\n" % (base, base, base, ps, ws))
        rc, o, e, _ = vlib.sh([vlib.JMODEL, "cow", lst], timeout=300)
        print(o.strip())
        if "cow-ok" not in o:
            print("VIOLATION property=%s replay=%s no-failing-input-found" % (prop, replay))
            return 1
        return 0
    return c12_replay(prop, replay, scratch)


PROPS["C02"] = {"runner": c02_runner, "replay": c02_replay, "level": "proof",
                "assumptions": ["A-disk: sector (512 B) atomicity, no reordering across a completed fsync, page cache coherent with mmap", "NoTornCollision: no mix of old and new header words verifies its checksum (evaluated on every synthesised tear)"]}


# ---- C11: injected I/O faults ---------------------------------------------------------------------------
def c11_continuation(t0, h0, second_fault=None):
    """state-agnostic continuation after a commit that reported an I/O error: resolve which state is
    visible, check the file, commit three more transactions, reopen"""
    hx, vtok = jgen.hx, jgen.vtok
    L = []
    t, h = t0, h0
    L += ["begin %d r" % t, "dump %d" % t, "drop %d" % t, "file", "flstate", "dbcheck"]
    t += 1
    for k in range(3):
        L += ["begin %d w" % t, "gocb %d %d 0 %s" % (t, h, hx(b"after-fault"))]
        for j in range(6):
            L.append("put %d %d %s %s" % (t, h, hx(b"af-%d-%d" % (k, j)), vtok(bytes([65 + j]) * (100 + 250 * j))))
        if k == 1:
            L.append("del %d %d %s" % (t, h, hx(b"af-0-2")))
        if second_fault is not None and k == 0:
            # a second fault, in the first transaction after the faulted one
            L += [second_fault, "commit %d" % t, "fired"]
            t += 1
            L += ["begin %d r" % t, "dump %d" % t, "drop %d" % t, "file", "flstate", "dbcheck"]
            t += 1
            h += 1
            continue
        L += ["commit %d" % t, "file", "flstate"]
        t += 1
        h += 1
        L += ["begin %d r" % t, "dump %d" % t, "drop %d" % t, "dbcheck"]
        t += 1
    L += ["reopen", "begin %d r" % t, "dump %d" % t, "drop %d" % t, "file", "dbcheck", "close"]
    return L


def c11_runner(prop, tier, seed, scratch, spec):
    import random
    import crashcheck
    q = tier == "quick"
    r = random.Random(seed)
    violations = []
    n_cases = n_ok = 0
    fault_kinds = collections.Counter()
    variants = []
    for idx in range(2 if q else 40):
        # base history; the last committed write transaction is the one that will be faulted
        prof = {"families": ["deep", "tiny"], "txs": 3, "ops": 30, "p_drop": 0.0, "p_reopen": 0.0, "p_dbcheck": 0.0, "p_bucket_ops": 0.2,
                "file": False, "numpages": 16 if idx % 2 else 64, "big_values": idx % 2 == 1}
        g = jgen.HistGen(seed * 4409 + idx, prof)
        base = g.history("c11-base%d" % idx)
        base = [l for l in base if l != "close"]
        res, trace, logp, cdir = run_under_shim(scratch, base + ["close"], "c11b%d" % idx)
        bad = vlib.failing(res)
        if bad:
            p = vlib.write_replay(prop, "base%d" % idx, base, {"detail": list(bad.values())[0]["detail"]})
            violations.append((p, "base history failed: " + list(bad.values())[0]["detail"][:200], ""))
            continue
        commits = [c for c in crashcheck.parse_log(logp) if c["outcome"] == "ok" and c["events"]]
        shutil.rmtree(cdir, ignore_errors=True)
        if not commits:
            continue
        # position of each `commit T` line in the base history, aligned with the logged commits
        commit_lines = [i for i, l in enumerate(base) if l.startswith("commit ")]
        ok_commit_lines = commit_lines[-len(commits):] if len(commit_lines) >= len(commits) else commit_lines
        targets = list(zip(ok_commit_lines, commits))
        if q:
            targets = targets[-2:]
        for li, c in targets:
            nw = sum(1 for e in c["events"] if e[0] == "W")
            ns = sum(1 for e in c["events"] if e[0] == "S")
            faults = [("write", n, e_, sh_) for n in range(1, nw + 1) for e_, sh_ in ((5, None), (28, 512 if n % 2 else 0))]
            faults += [("fsync", n, 5, None) for n in range(1, ns + 1)]
            # a short write that is NOT followed by an error: the commit must still succeed completely
            faults += [("write", n, 0, 512) for n in range(1, nw + 1)]
            if q and len(faults) > 20:
                keep = [f_ for f_ in faults if f_[0] == "fsync" or f_[1] in (1, nw, nw - 1) or (f_[2] == 0 and f_[1] >= nw - 2)]
                faults = keep + r.sample([f_ for f_ in faults if f_ not in keep], max(0, 20 - len(keep)))
            for kind, n, errno_, short in faults:
                fl = "fault %s %d %d" % (kind, n, errno_) + (" %d" % short if short is not None else "")
                hid = "c11-%d-l%d-%s%d-e%d%s" % (idx, li, kind, n, errno_, "-s%d" % short if short is not None else "")
                # the same fault under strict mode (the commit runs DB::check between the data and the header)
                cfgl = base[1].replace("strict=0", "strict=%d" % (len(variants) % 2)).replace("populate=0", "populate=%d" % (len(variants) // 2 % 2))
                lines = ["hist " + hid, cfgl] + base[2:li] + [fl, base[li], "fired"] + c11_continuation(5000, 5000)
                variants.append(lines)
                fault_kinds["%s-%s" % (kind, "short-then-error" if short is not None and errno_ else "short-no-error" if short is not None else "fail")] += 1
                fault_kinds["under-strict-mode"] += 1 if "strict=1" in cfgl else 0
            # pairs: a second fault in the transaction that follows the faulted one
            for _ in range(3 if q else 12):
                k1, n1, e1, s1 = r.choice(faults)
                f1 = "fault %s %d %d" % (k1, n1, e1) + (" %d" % s1 if s1 is not None else "")
                k2 = r.choice(["write", "fsync"])
                n2 = r.randrange(1, 4) if k2 == "write" else r.randrange(1, 3)
                f2 = "fault %s %d %d" % (k2, n2, r.choice([5, 28]))
                hid = "c11-%d-l%d-pair%d" % (idx, li, len(variants))
                cfgl = base[1].replace("strict=0", "strict=%d" % (len(variants) % 2))
                variants.append(["hist " + hid, cfgl] + base[2:li] + [f1, base[li], "fired"] + c11_continuation(5000, 5000, second_fault=f2))
                fault_kinds["pair"] += 1
        # file extension failure: a commit that must grow the file, under a file-size limit
        hx, vtok = jgen.hx, jgen.vtok
        lim = ["hist c11-limit-%d" % idx, "cfg pagesize=1024 numpages=8 strict=0 populate=0", "open",
               "begin 1 w", "mkb 1 1 0 %s" % hx(b"base"), "put 1 1 %s %s" % (hx(b"k"), hx(b"v")), "commit 1",
               "begin 2 w", "getb 2 2 0 %s" % hx(b"base")]
        lim += ["put 2 2 %s %s" % (hx(b"big%d" % j), vtok(bytes([66 + j]) * 3000)) for j in range(4 + idx)]
        # the limit sits at the current size (nothing can be written), inside the pages the commit needs, or
        # above them but below the pre-allocation step (only the extension call is refused)
        for lk in ([8, 64, 1024] if q else [8, 12, 16, 20, 24, 28, 32, 64, 256, 1024, 4096]):
            v = list(lim)
            v[0] = "hist c11-limit-%d-%dk" % (idx, lk)
            v += ["limit %d" % (lk * 1024), "commit 2", "limit inf"] + c11_continuation(5000, 5000)
            variants.append(v)
            fault_kinds["extension-limit"] += 1
    n_cases = len(variants)
    crashcheck.ensure_shim()
    env = {"LD_PRELOAD": crashcheck.SHIM, "JSHIM_PATH": "jverif-", "JSHIM_LOG": "/dev/null"}
    results, stats, by_id = histcheck.run_suites(scratch, [("faults", variants)], harness_env=env)
    fails = vlib.failing(results)
    n_ok = len(results) - len(fails)
    for pth, desc in (histcheck.shrink_and_report(prop, scratch, by_id, fails, harness_env=env) if fails else []):
        violations.append((pth, desc, ""))
    outcome_stats = {k: v for k, v in stats.items() if k.startswith("commit/")}
    cov = {
        "evaluations": n_cases,
        "distinct_nontrivial": n_cases,
        "rule": "for the commits of generated base histories, every write call index x {EIO, ENOSPC after a short write} and every fsync index (quick: first/last/penultimate + sample), injected through the LD_PRELOAD shim; plus file extension refused through RLIMIT_FSIZE; each followed by: read the visible state (must be exactly before or after), Lean file check, DB::check, three more committed transactions, reopen",
        "samples": [v[-40:-30] for v in variants[:1]] + [[l for l in v if l.startswith("fault") or l.startswith("limit")] for v in variants[:6]],
        "traces_validated_against_impl": n_ok,
        "fault_kinds": dict(fault_kinds),
        "commit_outcomes": outcome_stats,
        "what_the_injected_fault_did_vs_what_commit_returned": {k: v for k, v in stats.items() if k.startswith("fired/")},
        "free_list_vs_file_checks_after_faults": stats.get("free_list_vs_file_checks_at_start", 0),
        "floors": "an error delivered by the shim in at least 70% of the error-injecting cases (and commit returning it: checked per case), a short write without error in at least 70% of those cases, at least one free-list-against-file check per case",
    }
    low = []
    n_err_cases = fault_kinds["fsync-fail"] + fault_kinds["write-fail"] + fault_kinds["write-short-then-error"]
    got_err = sum(v for k, v in stats.items() if k.startswith("fired/err/"))
    got_short = sum(v for k, v in stats.items() if k.startswith("fired/short/"))
    if got_err < 0.7 * n_err_cases:
        low.append("the shim delivered an error in %d of %d error-injecting cases" % (got_err, n_err_cases))
    if got_short < 0.7 * fault_kinds["write-short-no-error"]:
        low.append("a short write happened in %d of %d short-write cases" % (got_short, fault_kinds["write-short-no-error"]))
    if stats.get("free_list_vs_file_checks_at_start", 0) < n_cases:
        low.append("the in-memory free list was compared with the file %d times in %d cases" % (stats.get("free_list_vs_file_checks_at_start", 0), n_cases))
    if stats.get("commit/err:Io", 0) < fault_kinds["extension-limit"] // 2:
        low.append("few commits failed under the file-size limit")
    if low and not violations:
        pth = vlib.write_replay(prop, "coverage", [], {"broken": "the fault-injection correspondence covers far less than the cases generated: " + "; ".join(low)})
        violations.append((pth, "fault-injection coverage below its floor: " + "; ".join(low), " no-failing-input-found"))
    return {"violations": violations, "coverage": cov, "explored": n_cases, "known": []}


PROPS["C11"] = {"runner": c11_runner, "level": "proof", "assumptions": ["the kernel's own behaviour after a failed fsync (page cache contents) is an assumption: pages written before the failure stay visible through the map"]}


# ---- C04 / C09: thread schedules ---------------------------------------------------------------------
def conc_batches(prop, tier, seed):
    q = tier == "quick"
    if prop == "C04":
        b = [("iso", 3, 1, 1, "bounded", [1, 400, seed]), ("iso", 3, 1, 1, "bounded", [2, 2500 if q else 40000, seed]),
             ("iso", 2, 2, 1, "bounded", [1, 400, seed]), ("iso", 4, 2, 1, "bounded", [2, 1500 if q else 30000, seed + 1]),
             ("iso", 3, 2, 1, "random", [300 if q else 20000, seed]),
             # two writers, the second let into `DB::tx(true)` while the first is open (it blocks in the lock call):
             # what a writer copies before it holds the writer lock is stale by the time it gets the lock
             ("rmw", 2, 1, 2, "bounded-eager", [1, 300, seed]), ("rmw", 2, 1, 3, "random-eager", [150 if q else 5000, seed + 3])]
    else:
        b = [("rmw", 2, 1, 2, "bounded", [1, 400, seed]), ("rmw", 2, 1, 2, "bounded", [2, 1500 if q else 30000, seed]),
             ("rmw", 2, 2, 3, "bounded", [1, 500, seed]), ("rmw", 2, 1, 3, "random", [300 if q else 20000, seed]),
             ("grow", 2, 1, 2, "bounded", [1, 120 if q else 600, seed]), ("grow", 2, 2, 2, "random", [40 if q else 600, seed]),
             # eager: a thread asking for the writer lock may be let go while the lock is held (it blocks in the lock call)
             ("rmw", 2, 1, 2, "bounded-eager", [1, 300, seed]), ("rmw", 2, 1, 3, "random-eager", [150 if q else 5000, seed + 3])]
    return b


def run_conc_batch(scratch, tag, prog, commits, readers, writers, mode, margs):
    out = scratch.path("conc-%s.out" % tag)
    db = scratch.db("conc-%s.db" % tag)
    env = None
    if mode.endswith("-eager"):
        mode = mode[:-len("-eager")]
        env = dict(vlib.ENV, JH_CONC_EAGER="1")
    cmd = [vlib.JHARNESS, "conc", prog, out, db, str(commits), str(readers), str(writers), mode] + [str(x) for x in margs]
    rc, o, e, dt = vlib.sh(cmd, timeout=400, env=env)
    rc2, o2, e2, dt2 = vlib.sh([vlib.JMODEL, "conc", out], timeout=600)
    bad, nruns = [], 0
    for l in o2.split("\n"):
        if l.startswith("CONCBAD "):
            bad.append(l[len("CONCBAD "):])
        elif l.startswith("SUMMARY"):
            m = re.search(r"runs=(\d+)", l)
            nruns = int(m.group(1)) if m else 0
    if rc not in (0, 3):
        bad.append("run ? program=%s commits=%d readers=%d writers=%d preempt=- random=- ## harness died rc=%d %s" % (prog, commits, readers, writers, rc, e[-200:]))
    elif rc2 != 0 or nruns == 0:
        # the verdicts come from the driver: no summary / no runs means nothing was compared
        bad.append("run ? program=%s commits=%d readers=%d writers=%d preempt=- random=- ## the Lean driver produced no verdicts (rc=%d runs=%d) %s" % (prog, commits, readers, writers, rc2, nruns, e2[-200:]))
    try:
        os.remove(out)
    except OSError:
        pass
    return nruns, bad


def conc_runner(prop, tier, seed, scratch, spec):
    import concurrent.futures as cf
    batches = conc_batches(prop, tier, seed)
    # corpus schedules first
    corpus = []
    for p_ in sorted(glob.glob(os.path.join(vlib.ROOT, "corpus", prop, "*.sched"))):
        f = open(p_).read().split()
        eager = "eager" in f[5:]
        f = [x for x in f if x != "eager"]
        corpus.append((f[0], int(f[1]), int(f[2]), int(f[3]), "one-eager" if eager else "one", [f[4]] + f[5:6]))
    work = [("c%d" % i, ) + b for i, b in enumerate(corpus)] + [("b%d" % i, ) + b for i, b in enumerate(batches)]
    total, bad_all = 0, []
    per_batch = []
    with cf.ThreadPoolExecutor(max_workers=8) as ex:
        for (tag, prog, c, r_, w, mode, margs), (n, bad) in zip(work, ex.map(lambda a: run_conc_batch(scratch, *a), work)):
            total += n
            bad_all += bad
            per_batch.append({"program": prog, "commits": c, "readers": r_, "writers": w, "mode": mode, "args": margs, "runs": n, "bad": len(bad)})
    violations = []
    seen = set()
    for b in bad_all:
        hdr, _, why = b.partition(" ## ")
        sg = why[:40]
        if sg in seen or len(violations) >= 3:
            continue
        seen.add(sg)
        g = lambda k: (re.search(k + r"=(\S+)", hdr) or [None, "-"])[1]
        os.makedirs(os.path.join(vlib.WORK, "replays"), exist_ok=True)
        pth = os.path.join(vlib.WORK, "replays", "%s-%s-%s.sched" % (prop, g("program"), re.sub(r"[^0-9a-z]", "_", (g("preempt") + "_" + g("random"))[:40])))
        with open(pth, "w") as f:
            f.write("%s %s %s %s %s %s%s\n" % (g("program"), g("commits"), g("readers"), g("writers"), g("preempt"), g("random") if g("random") != "-" else "", " eager" if g("eager") == "1" else ""))
            f.write("# %s\n" % why)
        violations.append((pth, why[:300] + " [" + hdr[:160] + "]", ""))
    lock_search = None
    if prop == "C09":
        # search of the five-lock MODEL at the regenerated tables: when the lock programs computed from the
        # source no longer respect the order (the theorem then does not check), this finds the schedule that
        # deadlocks in the model — a model-level witness (the real-thread scheduler above explores the
        # reader-admitting rwlock policy only and cannot park a thread inside a lock call of `resize`)
        jl = os.path.join(vlib.LEAN, ".lake/build/bin/jlocks")
        if os.path.exists(jl):
            rc, out, e, _ = vlib.sh([jl], timeout=300)
            lock_search = (out.strip().split("\n") or ["?"])[-1][:200] if rc == 0 else "deadlock found"
            if rc != 0 and "DEADLOCK" in out:
                pth = os.path.join(vlib.WORK, "replays", "C09-lock-model-deadlock.txt")
                os.makedirs(os.path.dirname(pth), exist_ok=True)
                open(pth, "w").write("# schedule of the five-lock model (Jamm/Model/LockOrder.lean) at the lock programs computed from the regenerated step tables\n# replay: cd /verif/lean && lake build jlocks && .lake/build/bin/jlocks\n" + out)
                dl = [l for l in out.split("\n") if l.startswith("DEADLOCK")][0]
                violations.append((pth, "the lock programs computed from the source deadlock in the model: " + dl[:220], ""))
            elif rc != 0:
                lock_search = "search failed: " + (out + e)[-200:]
        else:
            lock_search = "not run: the search executable did not build (step tables not regenerated)"
    cov = {
        "evaluations": total,
        "distinct_nontrivial": total,
        "lock_model_search": lock_search,
        "rule": "each run = one program (real jammdb transactions on real threads) under one deterministic schedule at the instrumented yield points: all schedules with at most 1 preemption, a seeded sample of those with 2, seeded random schedules; distinct by construction (different preemption sets / seeds); observations checked by the Lean driver against the specification",
        "samples": per_batch[:6],
        "traces_validated_against_impl": total - len(bad_all),
        "batches": per_batch,
        "states": total,
        "transitions": total,
    }
    return {"violations": violations, "coverage": cov, "explored": total, "known": []}


def conc_replay(prop, replay, scratch):
    f = [l for l in open(replay) if not l.startswith("#")][0].split()
    eager = "eager" in f[5:]
    f = [x for x in f if x != "eager"]
    margs = [f[4]] + f[5:6]
    n, bad = run_conc_batch(scratch, "replay", f[0], int(f[1]), int(f[2]), int(f[3]), "one-eager" if eager else "one", margs)
    for b in bad:
        print("REPLAY " + b[:400])
    if bad:
        print("VIOLATION property=%s replay=%s" % (prop, replay))
        return 1
    print("REPLAY ok runs=%d" % n)
    return 0


PROPS["C04"] = {"runner": conc_runner, "replay": conc_replay, "level": "proof", "assumptions": ["A-lock: std Mutex / RwLock semantics; a mutex-protected critical section is atomic with respect to other holders of that mutex", "A-hdr: a header slot is read atomically (interleavings inside DBInner::meta are below the yield points)"]}
PROPS["C09"] = {"runner": conc_runner, "replay": conc_replay, "level": "proof", "assumptions": ["A-lock: std Mutex / RwLock semantics (both reader-admission policies of the rwlock are covered by the theorems; the scheduler explores the admit-readers policy)", "fair OS scheduling for liveness"]}


# ---- C13: processes ----------------------------------------------------------------------------------------
def c13_runner(prop, tier, seed, scratch, spec):
    import random
    import proccheck
    q = tier == "quick"
    r = random.Random(seed)
    open_f, _ = vlib.load_findings()
    obs = []
    names = []
    for name, kind, lines in proccheck.scenarios(scratch, q, r):
        obs += lines
        names.append((name, kind))
    p = scratch.path("proc.obs")
    open(p, "w").write("\n".join(obs) + "\n")
    rc, out, err, _ = vlib.sh([vlib.JMODEL, "proc", p], timeout=300)
    violations, known = [], []
    n_ok = 0
    contended = 0
    # coverage: in how many scenarios did a worker call open while another was still inside
    cur = None
    times = {}
    for l in obs:
        f = l.split(" ")
        if f[0] == "scenario":
            cur = f[1]
            times[cur] = {}
        elif len(f) >= 3 and f[1] in ("open-called", "open-returned", "about-to-close"):
            times[cur].setdefault(f[0], {})[f[1]] = int(f[2])
    # every worker that was started must have reported (a worker that dies silently is a failure, not a pass)
    silent = []
    for l in obs:
        f = l.split(" ")
        if f[0] == "scenario":
            m_ = re.search(r"workers=(\S*)", l)
            for w in (m_.group(1).split(",") if m_ and m_.group(1) else []):
                if "open-called" not in times.get(f[1], {}).get(w, {}):
                    silent.append((f[1], w))
    for sc_, ws in times.items():
        for a, ta in ws.items():
            for b, tb in ws.items():
                if a != b and "open-called" in ta and "about-to-close" in tb and "open-returned" in tb and tb["open-returned"] < ta["open-called"] < tb["about-to-close"]:
                    contended += 1
    seen = set()
    for scn, w in silent[:3]:
        rp = vlib.write_replay(prop, "silent-%s" % scn, [], {"broken": "worker %s of scenario %s was started but logged nothing" % (w, scn)})
        violations.append((rp, "scenario %s: worker %s was started but reported nothing" % (scn, w), ""))
    for l in out.split("\n"):
        if l.startswith("PROCOK "):
            n_ok += 1
        elif l.startswith("PROCBAD "):
            hdr, cls, text = (l[len("PROCBAD "):].split(" ## ") + ["", ""])[:3]
            f = hdr.split(" ")
            name, kind = f[1], f[2]
            parked = (re.search(r"parked=(\S+)", hdr) or [None, ""])[1]
            # (D12 — creator parked between create and lock — is repaired; nothing is filtered here any more)
            if (name, cls) in seen:
                continue
            seen.add((name, cls))
            rp = os.path.join(vlib.WORK, "replays", "C13-%s.obs" % name)
            os.makedirs(os.path.dirname(rp), exist_ok=True)
            blk, on = [], False
            for o in obs:
                if o.startswith("scenario "):
                    on = o.split(" ")[1] == name
                if on:
                    blk.append(o)
            open(rp, "w").write("# %s: %s\n" % (cls, text) + "\n".join(blk) + "\n")
            violations.append((rp, "%s: %s" % (name, text[:200]), ""))
    for h in [l for l in obs if l.startswith("scenario ") and "hung=-" not in l]:
        rp = os.path.join(vlib.WORK, "replays", "C13-hung-%s.obs" % h.split(" ")[1])
        open(rp, "w").write(h + "\n")
        violations.append((rp, "a worker never finished: " + h, ""))
    cov = {
        "evaluations": len(names),
        "distinct_nontrivial": len(names),
        "rule": "each scenario = 2-4 worker processes opening the same file (existing, or not yet created), the first one parked by the LD_PRELOAD shim inside a chosen libc call of its open / initialise / close sequence until a later opener has been started; plus unparked runs with random start offsets and hold times; each worker commits a marker; intervals and contents checked by the Lean driver",
        "samples": obs[:12],
        "traces_validated_against_impl": n_ok,
        "contended_opens": contended,
        "interrupted_lock_waits": sum(1 for l in obs if " open-interrupted " in l),
        "scenarios": [n for n, _ in names],
    }
    if not violations and any(n.startswith("s-signal") for n, _ in names) and cov["interrupted_lock_waits"] == 0:
        rp = vlib.write_replay(prop, "coverage", [], {"broken": "the signal scenarios never interrupted a waiting opener (no open-interrupted observation): the EINTR path of the lock call was not exercised"})
        violations.append((rp, "signal scenarios did not interrupt any lock wait", " no-failing-input-found"))
    return {"violations": violations[:4], "coverage": cov, "explored": len(names), "known": known}


def c13_replay(prop, replay, scratch):
    rc, out, err, _ = vlib.sh([vlib.JMODEL, "proc", replay], timeout=60)
    print(out)
    if "PROCBAD" in out:
        print("VIOLATION property=%s replay=%s" % (prop, replay))
        return 1
    return 0


PROPS["C13"] = {"runner": c13_runner, "replay": c13_replay, "level": "proof", "assumptions": ["A-lock: flock advisory-lock semantics (same host, not NFS)"]}


# ---- C14: API programs ----------------------------------------------------------------------------------------
def c14_runner(prop, tier, seed, scratch, spec):
    import apicheck
    open_f, _ = vlib.load_findings()
    d13_open = any(f.get("id") == "D13" for f in open_f)
    rlib, err = apicheck.build_lib()
    violations, known = [], []
    if rlib is None:
        p = vlib.write_replay(prop, "lib-build", [], {"broken": "cargo build --lib failed", "log": err})
        return {"violations": [(p, "the crate does not build", " no-failing-input-found")], "coverage": {"evaluations": 0, "distinct_nontrivial": 0}, "explored": 0, "known": []}
    # the model's predictions
    rc, out, e, _ = vlib.sh([os.path.join(vlib.LEAN, ".lake/build/bin/japi")], timeout=120)
    pred, send = {}, {}
    for l in out.split("\n"):
        f = l.split(" ")
        if f[0] == "API":
            pred[(f[1], f[2], f[3] == "ref")] = {"rejected": f[4] == "rejected=true", "mapped": f[5] == "mapped=true"}
        elif f[0] == "SEND":
            send[f[1]] = f[2] == "notSend=true"
    if rc != 0 or not pred:
        p = vlib.write_replay(prop, "no-predictions", [], {"broken": "the Lean driver japi printed no predictions (rc=%s): %s" % (rc, e[-300:])})
        return {"violations": [(p, "the model's predictions could not be computed", " no-failing-input-found")], "coverage": {"evaluations": 0, "distinct_nontrivial": 0}, "explored": 0, "known": []}
    methods = json.load(open(os.path.join(vlib.WORK, "api-methods.json"))) if os.path.exists(os.path.join(vlib.WORK, "api-methods.json")) else []
    no_table = not methods
    unpredicted = []
    wd = os.path.join(scratch.dir, "api")
    os.makedirs(wd, exist_ok=True)
    jobs = []
    unclassified = []
    for m in methods:
        if m["owner"] not in apicheck.HANDED_OUT:
            continue
        key = (m["owner"], m["name"] + ("&" if m["forRef"] else ""))
        if key not in apicheck.CALLS and (m["owner"], m["name"]) not in apicheck.CALLS:
            unclassified.append("%s::%s" % (m["owner"], m["name"]))
            continue
        call = apicheck.CALLS.get(key, apicheck.CALLS.get((m["owner"], m["name"])))
        if call is None:
            continue
        name = "esc-%s-%s%s" % (m["owner"], m["name"], "-ref" if m["forRef"] else "")
        src = apicheck.escape_program(m["owner"], m["name"], m["forRef"], call, os.path.join(scratch.dbdir, name + ".db"))
        p_ = pred.get((m["owner"], m["name"], m["forRef"]))
        if p_ is None:
            unpredicted.append(name)      # never default a missing prediction to "accept"
            continue
        jobs.append((name, src, "reject" if p_["rejected"] else "accept", p_["mapped"], "generated"))
    for name, (exp, body) in apicheck.HANDWRITTEN.items():
        src = apicheck.PRELUDE + "\nfn main() {\n    " + body.replace("$P", os.path.join(scratch.dbdir, name + ".db")) + "\n}\n"
        jobs.append((name, src, exp, False, "handwritten"))
    import concurrent.futures as cf
    with cf.ThreadPoolExecutor(max_workers=12) as ex:
        results = list(ex.map(lambda j: apicheck.compile_and_run(wd, j[0], j[1], rlib), jobs))
    n_ok = 0
    table = []
    for (name, src, exp, mapped, origin), r in zip(jobs, results):
        row = {"program": name, "predicted": exp, "rustc": r["verdict"], "codes": r.get("codes", []), "ran_ok": r.get("run_ok")}
        table.append(row)
        problem = None
        LIFETIME_CODES = {"E0597", "E0505", "E0716", "E0499", "E0502", "E0506", "E0515", "E0521", "E0277", "E0373", "E0382", "E0503", "E0713"}
        if r["verdict"] != exp:
            problem = "rustc %ss a program the model predicts to be %sed (%s)" % (r["verdict"], exp, ",".join(r.get("codes", [])) or r.get("stderr", "")[-120:])
        elif r["verdict"] == "reject" and not (set(r.get("codes", [])) & LIFETIME_CODES):
            problem = "rejected, but not with a borrow / lifetime / Send error (%s): the program template no longer fits the API" % (",".join(r.get("codes", [])) or r.get("stderr", "")[-120:])
        elif r["verdict"] == "accept" and not r.get("run_ok"):
            problem = "the program compiles but faults / sees changed bytes at run time (rc=%s %s)" % (r.get("run_rc"), r.get("run_err", "")[-100:])
        if problem is None:
            n_ok += 1
            continue
        is_d13 = name.startswith("esc-BucketName-to_bytes")
        if is_d13 and d13_open:
            known.append("D13 %s: %s" % (name, problem[:140]))
            continue
        rp = os.path.join(vlib.WORK, "replays", "C14-%s.rs" % name)
        os.makedirs(os.path.dirname(rp), exist_ok=True)
        open(rp, "w").write("// %s\n// expect=%s\n" % (problem, exp) + src)
        violations.append((rp, "%s: %s" % (name, problem), ""))
    if no_table:
        rp = vlib.write_replay(prop, "no-api-table", [], {"broken": "the regenerated public API table is missing or empty: only the hand-written programs were run"})
        violations.append((rp, "the public API table could not be regenerated: the per-method escape programs were not run", " no-failing-input-found"))
    if unpredicted:
        rp = vlib.write_replay(prop, "unpredicted-api", [], {"broken": "the Lean driver printed no prediction for these table rows", "methods": unpredicted})
        violations.append((rp, "no model prediction for: %s" % ", ".join(unpredicted[:6]), " no-failing-input-found"))
    if unclassified:
        rp = vlib.write_replay(prop, "unclassified-api", [], {"broken": "public methods without an escape program template (tools/apicheck.py CALLS)", "methods": unclassified})
        violations.append((rp, "new public API not covered: %s" % ", ".join(unclassified), " no-failing-input-found"))
    cov = {
        "programs": len(jobs),
        "disagreements_checked": len(jobs),
        "evaluations": len(jobs),
        "distinct_nontrivial": len(jobs),
        "rule": "one escape program per public method of every handed-out type (from the regenerated rustdoc table) + hand-written escape routes (commit/drop, DB, short-lived keys/values, threads) + positive controls; each type-checked by the real rustc against the current tree; verdict compared with the Lean model's; compiled programs are run while the file is remapped and its pages reused",
        "samples": table[:4] + table[-3:],
        "traces_validated_against_impl": n_ok,
        "verdict_table": table,
        "send_model": send,
    }
    return {"violations": violations[:5], "coverage": cov, "explored": len(jobs), "known": known}


def c14_replay(prop, replay, scratch):
    """re-compiles (and, if it compiles, runs) the program; the violation is reported again only if the
    verdict still differs from the model's prediction recorded in the file (`// expect=…`)"""
    import apicheck
    rlib, err = apicheck.build_lib()
    src = open(replay).read()
    m = re.search(r"^// expect=(accept|reject)", src, flags=re.M)
    exp = m.group(1) if m else "reject"
    r = apicheck.compile_and_run(scratch.dir, "replay", src, rlib)
    print("REPLAY predicted=%s rustc=%s codes=%s ran_ok=%s" % (exp, r["verdict"], r.get("codes"), r.get("run_ok")))
    bad = r["verdict"] != exp or (r["verdict"] == "accept" and not r.get("run_ok"))
    if bad:
        print("VIOLATION property=%s replay=%s" % (prop, replay))
        return 1
    print("REPLAY ok")
    return 0


PROPS["C14"] = {"runner": c14_runner, "replay": c14_replay, "level": "other", "trusted": ["rustc is the ground truth for 'rejected'; nightly rustdoc JSON (format 57) for the API table"],
                "assumptions": ["the region rule is an abstraction of the borrow checker validated only on this corpus (variance, higher-ranked bounds, drop-check not modelled)"]}
