"""Per-property check programmes."""
import collections
import json
import os
import sys
import time

import histcheck
import jgen
import vlib
from vlib import log

TRUSTED_BASE = [
    "Lean 4.33 kernel; axioms allowed: propext, Classical.choice, Quot.sound",
    "the specification Jamm/Model/Spec.lean and the statements in Jamm/Props",
    "correspondence harness (/verif/harness, Rust, public API of /repo built from the working tree) and Lean driver glue (lean/Driver)",
    "Rust std binary_search / sort are correct on their preconditions",
]

ASSUME_COMMON = [
    "A-ovf: no 64-bit wrap-around of page ids, counters, transaction ids (model uses unbounded Nat)",
    "A-oom: allocation failure / SIGBUS on a truncated map are out of scope",
]


# ---- suites ------------------------------------------------------------------------------------
def hists_of(lines):
    return vlib.split_histories(lines)


def suite_random(seed, n, profile, prefix):
    return hists_of(jgen.gen_random(seed, n, profile, prefix))


def c01_suites(tier, seed):
    q = tier == "quick"
    s = []
    s.append(("rand-deep", suite_random(seed, 120 if q else 3000, {"families": ["deep", "short"]}, "rd")))
    s.append(("rand-mixed", suite_random(seed + 1, 80 if q else 2000, {"families": ["deep", "mid", "tiny", "short", "huge"], "txs": 5}, "rm")))
    s.append(("rand-buckets", suite_random(seed + 2, 80 if q else 2000, {"families": ["tiny", "short", "deep"], "p_bucket_ops": 0.4, "nest": 4}, "rb")))
    s.append(("rand-4096", suite_random(seed + 3, 20 if q else 500, {"families": ["mid", "tiny", "deep"], "pagesize": 4096, "ops": 200, "txs": 4}, "r4")))
    # directed enumerations: every contiguous delete range over 1-, 2-, 3-level trees
    s.append(("growth", hists_of(jgen.gen_growth(seed, 1 if q else 8))))
    s.append(("enum-2leaf", hists_of(jgen.gen_range_deletes(5, klen=8, vlen=300, prefix="e5"))))
    s.append(("enum-12", hists_of(jgen.gen_range_deletes(12, prefix="e12", reinsert=True))))
    if q:
        import random
        r = random.Random(seed)
        rs = [(i, j) for i in range(40) for j in range(i + 1, 41)]
        r.shuffle(rs)
        s.append(("enum-40", hists_of(jgen.gen_range_deletes(40, prefix="e40", ranges=rs[:150]))))
        rs3 = rs[150:190]
        s.append(("enum-40-buckets", hists_of(jgen.gen_range_deletes(40, every_bucket=4, prefix="eb40", ranges=rs3))))
    else:
        s.append(("enum-40", hists_of(jgen.gen_range_deletes(40, prefix="e40"))))
        s.append(("enum-40-buckets", hists_of(jgen.gen_range_deletes(40, every_bucket=4, prefix="eb40"))))
        s.append(("enum-40-reinsert", hists_of(jgen.gen_range_deletes(40, prefix="er40", reinsert=True))))
    return s


def c07_suites(tier, seed):
    q = tier == "quick"
    prof = {"read_after_every_op": True, "p_reads": 0.05, "p_delete": 0.45, "ops": 40, "txs": 4, "p_drop": 0.3}
    s = []
    s.append(("rao-deep", suite_random(seed, 60 if q else 1500, dict(prof, families=["deep", "short"]), "wd")))
    s.append(("rao-buckets", suite_random(seed + 1, 40 if q else 1000, dict(prof, families=["tiny", "deep"], p_bucket_ops=0.35), "wb")))
    s.append(("emptied-leaves", hists_of(jgen.gen_emptied_leaves(40, seed, 40 if q else 400))))
    return s


def c08_suites(tier, seed):
    q = tier == "quick"
    s = []
    s.append(("queries", hists_of(jgen.gen_queries(seed, 12 if q else 200))))
    prof = {"p_reads": 0.6, "p_delete": 0.15, "ops": 80, "txs": 4}
    s.append(("rand-reads", suite_random(seed, 60 if q else 1500, dict(prof, families=["deep", "short"]), "qr")))
    return s


def c05_suites(tier, seed):
    q = tier == "quick"
    chk = {"p_dbcheck": 1.0, "file": True}
    s = []
    s.append(("bucket-deletes", suite_random(seed + 10, 150 if q else 4000, dict(chk, families=["tiny", "short", "deep"], p_bucket_ops=0.5, nest=4, p_delete=0.2), "bd")))
    s.append(("rand-deep", suite_random(seed + 11, 120 if q else 3000, dict(chk, families=["deep", "short"]), "fd")))
    s.append(("rand-mixed", suite_random(seed + 12, 80 if q else 2000, dict(chk, families=["deep", "mid", "tiny", "short", "huge"], txs=5), "fm")))
    s.append(("rand-4096", suite_random(seed + 13, 20 if q else 500, dict(chk, families=["mid", "tiny", "deep"], pagesize=4096, ops=200, txs=4), "f4")))
    import random
    r = random.Random(seed)
    rs = [(i, j) for i in range(40) for j in range(i + 1, 41)]
    r.shuffle(rs)
    s.append(("enum-40-buckets", hists_of(jgen.gen_range_deletes(40, every_bucket=4, prefix="fb40", ranges=rs[:60] if q else None))))
    s.append(("enum-40", hists_of(jgen.gen_range_deletes(40, prefix="f40", ranges=rs[60:260] if q else None))))
    s.append(("enum-2leaf", hists_of(jgen.gen_range_deletes(5, klen=8, vlen=300, prefix="f5"))))
    return s


def c06_suites(tier, seed):
    q = tier == "quick"
    return [("rollback-ro", hists_of(jgen.gen_c06(seed, 60 if q else 1500))),
            ("rollback-4096", hists_of(jgen.gen_c06(seed + 5, 10 if q else 200, pagesize=4096)))]


def c03_suites(tier, seed):
    q = tier == "quick"
    return [("readers", hists_of(jgen.gen_c03(seed, 60 if q else 2000, k_readers=4 if q else 8)))]


def c10_suites(tier, seed):
    q = tier == "quick"
    return [("soak", hists_of(jgen.gen_c10(seed, 9 if q else 48, ntx=100 if q else 1500))),
            ("readers", hists_of(jgen.gen_c03(seed + 3, 20 if q else 500, k_readers=2)))]


C16_PAGESIZES = [1024, 1032, 2048, 3000, 4096, 5000, 16384, 65536, 1048576]


def c16_suites(tier, seed):
    import random
    q = tier == "quick"
    r = random.Random(seed)
    full = [(ps, np_, st, pop) for ps in C16_PAGESIZES for np_ in (4, 32, 1000) for st in (0, 1) for pop in (0, 1)]
    if q:
        # every page size, every page count, both strict / populate values appear; 14 of the 108 combinations
        cfgs = [(ps, r.choice([4, 32, 1000]), r.randrange(2), r.randrange(2)) for ps in C16_PAGESIZES]
        cfgs += [(1024, 4, 1, 1), (4096, 1000, 1, 0), (1032, 4, 0, 1), (5000, 32, 1, 1), (3000, 4, 1, 0)]
        nbase = 6
    else:
        cfgs = full
        nbase = 12
    s = [("configs", hists_of(jgen.gen_c16(seed, nbase, cfgs)))]
    s.append(("growth", hists_of(jgen.gen_growth(seed, 2 if q else 12))))
    return s


PROPS = {
    "C03": {"suites": c03_suites, "level": "proof", "corpus": ["C03"]},
    "C10": {"suites": c10_suites, "level": "proof", "corpus": ["C10"]},
    "C06": {"suites": c06_suites, "level": "proof", "corpus": ["C06"]},
    "C16": {"suites": c16_suites, "level": "other", "corpus": ["C16"]},
    "C05": {"suites": c05_suites, "level": "other", "corpus": ["C05", "C01"]},
    "C01": {"suites": c01_suites, "level": "other", "corpus": ["C01", "C05", "C08", "C07"]},
    "C07": {"suites": c07_suites, "level": "proof", "corpus": ["C07", "C08"]},
    "C08": {"suites": c08_suites, "level": "proof", "corpus": ["C08", "C07"]},
}


def op_histogram(suites):
    c = collections.Counter()
    sizes = []
    for _, hs in suites:
        for h in hs:
            sizes.append(len(h))
            for l in h:
                c[l.split(" ")[0]] += 1
    return dict(c), sizes


def nontrivial(h):
    muts = sum(1 for l in h if l.split(" ")[0] in ("put", "del", "mkb", "gocb", "delb"))
    commits = sum(1 for l in h if l.startswith("commit "))
    return muts >= 3 and commits >= 1


def run(prop, tier, seed, replay, t0):
    spec = PROPS[prop]
    b = vlib.build(prop)
    thms, auditlog = ([], None)
    if b.lean_ok:
        thms, auditlog = vlib.audit(prop)
    forb = vlib.scan_forbidden()
    bad_thms = [t for t in thms if not t["ok"]]
    obligations_broken = list(b.failed_obligations)
    if b.lean_ok and not thms:
        obligations_broken.append("audit found no theorem in Jamm.Props.%s (%s)" % (prop, (auditlog or ("", ""))[1][-300:]))
    for t in bad_thms:
        obligations_broken.append("theorem %s depends on axioms %s" % (t["name"], t["axioms"]))
    for hpos in forb:
        obligations_broken.append("forbidden construct " + hpos)

    violations = []  # (replay path, description, suffix)
    scratch = vlib.Scratch(prop)
    try:
        if not b.harness_ok:
            p = vlib.write_replay(prop, "harness-build", [], {"broken": "the correspondence harness no longer builds against /repo", "log": b.messages[-1][-1500:]})
            print("VIOLATION property=%s replay=%s no-failing-input-found" % (prop, p))
            vlib.write_evidence(prop, tier, seed, "other", {"explanation": "harness build failed; nothing explored", "evaluations": 0, "distinct_nontrivial": 0}, ASSUME_COMMON, time.time() - t0, 1)
            return 1

        if replay:
            lines = [l.rstrip("\n") for l in open(replay) if l.strip() and not l.startswith("#")]
            if not lines:
                print("replay file names a broken obligation, nothing to execute:")
                print(open(replay).read())
                return 1
            res, _ = vlib.run_hist(scratch, lines, name="replay")
            bad = vlib.failing(res)
            for k, v in res.items():
                print("REPLAY %s %s %s" % (k, v["status"], v["detail"][:600]))
            if bad:
                print("VIOLATION property=%s replay=%s" % (prop, replay))
                return 1
            return 0

        search_tier = tier if not obligations_broken else "thorough"
        suites = spec["suites"](search_tier, seed)
        corpus = []
        for cp in spec.get("corpus", [prop]):
            corpus += histcheck.load_corpus(cp)
        suites = [("corpus", corpus)] + suites
        hist, sizes = op_histogram(suites)
        results, stats, by_id = histcheck.run_suites(scratch, suites)
        fails = vlib.failing(results)
        reports = []
        if fails:
            reports = histcheck.shrink_and_report(prop, scratch, by_id, fails)
        for path, desc in reports:
            violations.append((path, desc, ""))
        if obligations_broken and not fails:
            p = vlib.write_replay(prop, "obligation", [], {"broken_obligations": obligations_broken, "searched": "%d histories at %s volume, none failed" % (len(results), search_tier)})
            violations.append((p, "proof obligation no longer checks: " + "; ".join(obligations_broken)[:400], " no-failing-input-found"))

        # ---- evidence ------------------------------------------------------------------------
        all_h = [h for _, hs in suites for h in hs]
        distinct = {}
        for h in all_h:
            distinct.setdefault(vlib.hist_hash(h), h)
        nt = sum(1 for h in distinct.values() if nontrivial(h))
        samples = []
        for sname, hs in suites[:4]:
            if hs:
                samples.append({"suite": sname, "history": [l[:120] for l in hs[0][:25]]})
        outcome_stats = {k: v for k, v in stats.items() if "/" in k}
        cov = {
            "obligations": len(thms) + len(obligations_broken),
            "discharged": len([t for t in thms if t["ok"]]),
            "checker_cmd": "cd /verif/lean && lake build Jamm.Props.%s && lake env lean <audit file: #audit_ns %s>" % (prop, prop),
            "trusted_base": TRUSTED_BASE,
            "theorems": [{"name": t["name"], "axioms": t["axioms"]} for t in thms],
            "broken_obligations": obligations_broken,
            "evaluations": len(all_h),
            "distinct_nontrivial": nt,
            "rule": "histories generated from VERIF_SEED by tools/jgen.py (random profiles + directed enumerations) plus the corpus; distinct by SHA-1 of the operation lines; non-trivial = at least 3 mutating calls and one commit",
            "samples": samples,
            "traces_validated_against_impl": len(results) - len(fails),
            "suites": {s: len(hs) for s, hs in suites},
            "input_op_histogram": hist,
            "history_length_quartiles": quartiles(sizes),
            "impl_outcome_histogram": outcome_stats,
            "explanation": "Lean theorems (listed) are re-checked by lake build and audited for axioms; every history is executed on the real code and each outcome compared by the Lean driver with the specification's",
        }
        level = spec["level"] if not obligations_broken else "other"
        vlib.write_evidence(prop, tier, seed, level, cov, ASSUME_COMMON, time.time() - t0, len(violations))
        for path, desc, suffix in violations:
            log("violation:", desc)
            print("VIOLATION property=%s replay=%s%s" % (prop, path, suffix))
        if not violations:
            print("OK property=%s tier=%s histories=%d theorems=%d wall=%.1fs" % (prop, tier, len(all_h), len(thms), time.time() - t0))
        return 1 if violations else 0
    finally:
        scratch.cleanup()


def quartiles(xs):
    if not xs:
        return []
    xs = sorted(xs)
    return [xs[0], xs[len(xs) // 4], xs[len(xs) // 2], xs[3 * len(xs) // 4], xs[-1]]
