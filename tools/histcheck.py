"""History-stream checks: run generated + corpus histories through harness and Lean driver."""
import concurrent.futures as cf
import glob
import os
import time

import vlib
from vlib import log


def chunked(hists, n):
    out, cur, ops = [], [], 0
    for h in hists:
        cur.append(h)
        ops += len(h)
        if ops >= n:
            out.append(cur)
            cur, ops = [], 0
    if cur:
        out.append(cur)
    return out


def run_suites(scratch, suites, jobs=12, mode="hist", harness_env=None, timeout=900):
    """suites: list of (suite name, list of history line lists).  returns per-history results"""
    # history ids must be unique over the whole run: results are keyed by id, and a verdict that overwrote
    # another would hide a failure
    seen_ids = set()
    for sname, hists in suites:
        for h in hists:
            f = h[0].split(" ")
            hid, n = f[1], 1
            while hid in seen_ids:
                n += 1
                hid = "%s~%s%d" % (f[1], sname, n)
            seen_ids.add(hid)
            if hid != f[1]:
                f[1] = hid
                h[0] = " ".join(f)
    work = []
    for sname, hists in suites:
        if sname.startswith("odd-"):
            # one probe process per history
            for i, h in enumerate(hists):
                work.append((sname, i, [h]))
            continue
        # chunks small enough that one harness process never comes near its time limit, and that the
        # worker pool stays busy
        for i, ch in enumerate(chunked(hists, 400)):
            work.append((sname, i, ch))
    results = {}
    stats = {}
    by_id = {}
    for sname, hists in suites:
        for h in hists:
            by_id[h[0].split(" ")[1]] = (sname, h)

    def job(w):
        sname, i, ch = w
        lines = [l for h in ch for l in h]
        sc = vlib.Scratch("%s-%d-%d" % (sname, i, os.getpid()))
        try:
            res, st = vlib.run_hist(sc, lines, name=sname, mode=mode, harness_env=harness_env, timeout=timeout)
            # a died harness leaves later histories unrun: rerun them one by one
            notrun = [h for h in ch if res.get(h[0].split(" ")[1], {}).get("status") in ("NOTRUN", "UNKNOWN")]
            for h in notrun:
                r2, _ = vlib.run_hist(sc, h, name=sname + "-re", mode=mode, harness_env=harness_env, timeout=120)
                res.update(r2)
            return res, st
        finally:
            sc.cleanup()

    with cf.ThreadPoolExecutor(max_workers=jobs) as ex:
        for res, st in ex.map(job, work):
            results.update(res)
            for k, v in st.items():
                if isinstance(v, (int, float)):
                    stats[k] = stats.get(k, 0) + v
    # every history must have a verdict
    for hid in by_id:
        if hid not in results:
            results[hid] = {"status": "NORESULT", "detail": "no verdict came back for this history"}
    return results, stats, by_id


def load_corpus(prop):
    hists = []
    for p in sorted(glob.glob(os.path.join(vlib.ROOT, "corpus", prop, "*.hist"))):
        lines = [l.rstrip("\n") for l in open(p) if l.strip() and not l.startswith("#")]
        for h in vlib.split_histories(lines):
            h[0] = "hist corpus-%s-%s" % (os.path.basename(p)[:-5], h[0].split(" ")[1])
            hists.append(h)
    return hists


def shrink_and_report(prop, scratch, by_id, fails, mode="hist", harness_env=None, max_reports=3):
    """returns list of (replay path, description)"""
    reports = []
    seen = set()
    for hid, r in fails.items():
        sig = vlib.sig_of(r["detail"]) if r["status"] == "SPECDIFF" else r["status"]
        if sig in seen:
            continue
        seen.add(sig)
        if len(reports) >= max_reports:
            break
        sname, h = by_id[hid]

        def still(lines, sig=sig):
            res, _ = vlib.run_hist(scratch, lines, name="shrink", mode=mode, harness_env=harness_env, timeout=20)
            rr = list(res.values())[0] if res else None
            if not rr or rr["status"] == "OK":
                return False
            if "unknown" in rr["detail"]:
                return False
            s2 = vlib.sig_of(rr["detail"]) if rr["status"] == "SPECDIFF" else rr["status"]
            return s2 == sig

        small = h
        try:
            if len(h) < 3000:
                small = vlib.shrink_history(scratch, h, still, max_runs=int(os.environ.get("JAMM_SHRINK_RUNS", "150")))
        except Exception as e:  # shrinking is best effort
            log("shrink failed", e)
        res, _ = vlib.run_hist(scratch, small, name="final", mode=mode, harness_env=harness_env, timeout=120)
        rr = list(res.values())[0] if res else r
        path = vlib.write_replay(prop, hid, small, {"suite": sname, "status": rr["status"], "detail": rr["detail"], "original_ops": len(h), "shrunk_ops": len(small)})
        reports.append((path, "%s %s" % (rr["status"], rr["detail"][:300])))
    return reports
