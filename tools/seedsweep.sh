#!/bin/bash
# quick tier under several seeds: any VIOLATION on the unchanged tree is a false alarm (or a defect) to examine
cd /verif
rm -rf .work/evidence.keep2; cp -r evidence .work/evidence.keep2
for seed in 2 3 5 8 13 21 34 55; do
  for id in C01 C02 C03 C04 C05 C06 C07 C08 C09 C10 C11 C12 C13 C14 C15 C16; do
    out=$(VERIF_SEED=$seed ./check $id --tier quick 2>/dev/null | grep -E "^(VIOLATION|OK)" | head -2 | cut -c1-160 | tr '\n' ' ')
    echo "seed=$seed $id: $out"
  done
done
rm -rf evidence; mv .work/evidence.keep2 evidence
