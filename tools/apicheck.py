"""API-program stream (C14): small client programs type-checked by the real rustc against the current
tree; rustc's verdict is compared with the prediction of the Lean model (`escapeRejected`, `notSend`)
evaluated on the table regenerated from rustdoc JSON.  Programs that compile are run in a probe process
while the file is remapped and its pages are reused."""
import concurrent.futures as cf
import json
import os
import re
import subprocess

import vlib

API_TARGET = os.path.join(vlib.WORK, "target-api")

PRELUDE = '''#![allow(unused, unused_must_use, dropping_references, forgetting_references)]
use jammdb::*;
use std::ops::Bound;
fn use_it<T>(_t: &T) {}
fn setup(path: &str) -> DB {
    let _ = std::fs::remove_file(path);
    let db = OpenOptions::new().pagesize(1024).num_pages(4).open(path).unwrap();
    {
        let tx = db.tx(true).unwrap();
        let b = tx.create_bucket("b").unwrap();
        for i in 0..40u32 { b.put(format!("key-{:03}", i).into_bytes(), vec![i as u8; 100]).unwrap(); }
        b.put("k", "v").unwrap();
        b.create_bucket("n").unwrap();
        tx.commit().unwrap();
    }
    db
}
// rewrite every page several times and grow the file past one 8 MiB step (remap)
fn churn(db: &DB) {
    for round in 0..6u32 {
        let tx = db.tx(true).unwrap();
        let b = tx.get_bucket("b").unwrap();
        for i in 0..40u32 { b.put(format!("key-{:03}", i).into_bytes(), vec![(round * 7 + i) as u8; 100 + round as usize]).unwrap(); }
        if round == 2 { b.put("big", vec![9u8; 9 * 1024 * 1024]).unwrap(); }
        if round == 4 { b.delete("big").unwrap(); }
        tx.commit().unwrap();
    }
}
'''

# how to obtain a receiver of each owner type inside `{ let tx = db.tx(W)?; ... }`
RECEIVER = {
    "Tx": ("", "tx"),
    "Bucket": ("let b = tx.get_bucket(\"b\").unwrap();", "b"),
    "Cursor": ("let b = tx.get_bucket(\"b\").unwrap(); let mut c = b.cursor();", "c"),
    "Range": ("let b = tx.get_bucket(\"b\").unwrap(); let mut rg = b.range::<std::ops::RangeFull>(..);", "rg"),
    "Buckets": ("let b = tx.get_bucket(\"b\").unwrap(); let mut bs = b.cursor().to_buckets();", "bs"),
    "KVPairs": ("let b = tx.get_bucket(\"b\").unwrap(); let mut kvs = b.cursor().to_kv_pairs();", "kvs"),
    "KVPair": ("let b = tx.get_bucket(\"b\").unwrap(); let kv = b.get_kv(\"k\").unwrap();", "kv"),
    "Data": ("let b = tx.get_bucket(\"b\").unwrap(); let data = b.get(\"k\").unwrap();", "data"),
    "BucketName": ("let b = tx.get_bucket(\"b\").unwrap(); let bn = b.buckets().next().unwrap().0;", "bn"),
}

# call expression for each method (receiver variable substituted for $r); None = not an escape candidate
CALLS = {
    ("Tx", "get_bucket"): "$r.get_bucket(\"b\").unwrap()", ("Tx", "create_bucket"): "$r.create_bucket(\"new\").unwrap()",
    ("Tx", "get_or_create_bucket"): "$r.get_or_create_bucket(\"b\").unwrap()", ("Tx", "delete_bucket"): "$r.delete_bucket(\"nope\")",
    ("Tx", "buckets"): "$r.buckets()", ("Tx", "commit"): None,
    ("Bucket", "put"): "$r.put(\"k2\", \"v2\").unwrap()", ("Bucket", "get"): "$r.get(\"k\").unwrap()", ("Bucket", "get_kv"): "$r.get_kv(\"k\").unwrap()",
    ("Bucket", "delete"): "$r.delete(\"k\").unwrap()", ("Bucket", "get_bucket"): "$r.get_bucket(\"n\").unwrap()",
    ("Bucket", "create_bucket"): "$r.create_bucket(\"n2\").unwrap()", ("Bucket", "get_or_create_bucket"): "$r.get_or_create_bucket(\"n\").unwrap()",
    ("Bucket", "delete_bucket"): "$r.delete_bucket(\"n\")", ("Bucket", "cursor"): "$r.cursor()", ("Bucket", "next_int"): "$r.next_int()",
    ("Bucket", "buckets"): "$r.buckets()", ("Bucket", "kv_pairs"): "$r.kv_pairs()", ("Bucket", "range"): "$r.range::<std::ops::RangeFull>(..)",
    ("Bucket", "into_iter"): "$r.into_iter()",
    ("Cursor", "seek"): "$r.seek(\"k\")", ("Cursor", "current"): "{ $r.seek(\"k\"); $r.current().unwrap() }", ("Cursor", "next"): "$r.next().unwrap()",
    ("Cursor", "to_buckets"): "$r.to_buckets()", ("Cursor", "to_kv_pairs"): "$r.to_kv_pairs()",
    ("Range", "next"): "$r.next().unwrap()", ("Range", "to_buckets"): "$r.to_buckets()", ("Range", "to_kv_pairs"): "$r.to_kv_pairs()",
    ("Buckets", "next"): "$r.next().unwrap()", ("KVPairs", "next"): "$r.next().unwrap()",
    ("KVPair", "key"): "$r.key()", ("KVPair", "value"): "$r.value()", ("KVPair", "kv"): "$r.kv()", ("KVPair", "clone"): "$r.clone()",
    ("KVPair", "from"): None,
    ("Data", "is_kv"): "$r.is_kv()", ("Data", "kv"): "$r.kv()", ("Data", "key"): "$r.key()", ("Data", "clone"): "$r.clone()", ("Data", "from"): None,
    ("BucketName", "name"): "$r.name()", ("BucketName", "clone"): "$r.clone()",
    ("BucketName", "to_bytes"): "ToBytes::to_bytes($r)", ("BucketName", "to_bytes&"): "ToBytes::to_bytes(&$r)",
}
WRITERS = {"put", "delete", "create_bucket", "get_or_create_bucket", "delete_bucket"}
HANDED_OUT = ["Tx", "Bucket", "Cursor", "Range", "Buckets", "KVPairs", "KVPair", "Data", "BucketName"]


def escape_program(owner, name, for_ref, call, path):
    pre, var = RECEIVER[owner]
    w = "true" if name in WRITERS else "false"
    body = call.replace("$r", var)
    probe = "use_it(&escaped);"
    if owner == "BucketName" and name == "to_bytes":
        # the one value that (today) escapes while pointing into the map: read it before and after
        probe = "let after: Vec<u8> = AsRef::<[u8]>::as_ref(&escaped).to_vec(); assert_eq!(after, b\"n\".to_vec(), \"escaped bytes changed\");"
    return PRELUDE + '''
fn main() {
    let db = setup("%s");
    let escaped;
    {
        let tx = db.tx(%s).unwrap();
        %s
        let r = %s;
        escaped = r;
    }
    churn(&db);
    %s
    println!("ran-ok");
}
''' % (path, w, pre, body, probe)


HANDWRITTEN = {
    # name: (expected: "reject" | "accept", body of main)
    "commit-consumes-tx-bucket": ("reject", 'let db = setup("$P"); let tx = db.tx(true).unwrap(); let b = tx.get_bucket("b").unwrap(); tx.commit().unwrap(); use_it(&b.next_int());'),
    "commit-consumes-tx-kv": ("reject", 'let db = setup("$P"); let tx = db.tx(true).unwrap(); let kv = tx.get_bucket("b").unwrap().get_kv("k").unwrap(); tx.commit().unwrap(); use_it(&kv.value());'),
    "commit-consumes-tx-cursor": ("reject", 'let db = setup("$P"); let tx = db.tx(true).unwrap(); let b = tx.get_bucket("b").unwrap(); let mut c = b.cursor(); tx.commit().unwrap(); use_it(&c.next());'),
    "drop-tx-data": ("reject", 'let db = setup("$P"); let tx = db.tx(false).unwrap(); let d = tx.get_bucket("b").unwrap().get("k").unwrap(); drop(tx); use_it(&d.key());'),
    "drop-tx-bucketname": ("reject", 'let db = setup("$P"); let tx = db.tx(false).unwrap(); let n = tx.buckets().next().unwrap().0; drop(tx); use_it(&n.name());'),
    "drop-tx-range": ("reject", 'let db = setup("$P"); let tx = db.tx(false).unwrap(); let b = tx.get_bucket("b").unwrap(); let mut r = b.range::<std::ops::RangeFull>(..); drop(tx); use_it(&r.next());'),
    "tx-outlives-db": ("reject", 'let tx; { let db = setup("$P"); tx = db.tx(false).unwrap(); } use_it(&tx.get_bucket("b").is_ok());'),
    "key-shorter-than-tx": ("reject", 'let db = setup("$P"); let tx = db.tx(true).unwrap(); let b = tx.get_bucket("b").unwrap(); { let k = String::from("short"); b.put(k.as_str(), "v").unwrap(); } tx.commit().unwrap();'),
    "value-shorter-than-tx": ("reject", 'let db = setup("$P"); let tx = db.tx(true).unwrap(); let b = tx.get_bucket("b").unwrap(); { let v = vec![1u8, 2, 3]; b.put("k9", v.as_slice()).unwrap(); } tx.commit().unwrap();'),
    "send-tx": ("reject", 'let db = setup("$P"); let tx = db.tx(false).unwrap(); std::thread::scope(|s| { s.spawn(move || { use_it(&tx.get_bucket("b").is_ok()); }); });'),
    "send-bucket": ("reject", 'let db = setup("$P"); let tx = db.tx(false).unwrap(); let b = tx.get_bucket("b").unwrap(); std::thread::scope(|s| { s.spawn(move || { use_it(&b.next_int()); }); });'),
    "send-cursor": ("reject", 'let db = setup("$P"); let tx = db.tx(false).unwrap(); let b = tx.get_bucket("b").unwrap(); let mut c = b.cursor(); std::thread::scope(|s| { s.spawn(move || { use_it(&c.next()); }); });'),
    "send-kvpair": ("reject", 'let db = setup("$P"); let tx = db.tx(false).unwrap(); let kv = tx.get_bucket("b").unwrap().get_kv("k").unwrap(); std::thread::scope(|s| { s.spawn(move || { use_it(&kv.key().len()); }); });'),
    "send-data": ("reject", 'let db = setup("$P"); let tx = db.tx(false).unwrap(); let d = tx.get_bucket("b").unwrap().get("k").unwrap(); std::thread::scope(|s| { s.spawn(move || { use_it(&d.is_kv()); }); });'),
    "send-bucketname": ("reject", 'let db = setup("$P"); let tx = db.tx(false).unwrap(); let n = tx.buckets().next().unwrap().0; std::thread::scope(|s| { s.spawn(move || { use_it(&n.name().len()); }); });'),
    "share-tx-ref": ("reject", 'let db = setup("$P"); let tx = db.tx(false).unwrap(); std::thread::scope(|s| { s.spawn(|| { use_it(&tx.get_bucket("b").is_ok()); }); });'),
    # positive controls
    "ok-basic": ("accept", 'let db = setup("$P"); { let tx = db.tx(true).unwrap(); let b = tx.get_bucket("b").unwrap(); b.put("x", "y").unwrap(); let v = b.get_kv("x").unwrap().value().to_vec(); tx.commit().unwrap(); assert_eq!(v, b"y"); } println!("ran-ok");'),
    "ok-owned-copy-outlives": ("accept", 'let db = setup("$P"); let copy: Vec<u8>; { let tx = db.tx(false).unwrap(); copy = tx.get_bucket("b").unwrap().get_kv("k").unwrap().value().to_vec(); } churn(&db); assert_eq!(copy, b"v"); println!("ran-ok");'),
    "ok-clone-db-threads": ("accept", 'let db = setup("$P"); let db2 = db.clone(); let h = std::thread::spawn(move || { let tx = db2.tx(false).unwrap(); tx.get_bucket("b").unwrap().next_int() }); let n = h.join().unwrap(); assert!(n > 0); println!("ran-ok");'),
    "ok-owned-key-types": ("accept", 'let db = setup("$P"); { let tx = db.tx(true).unwrap(); let b = tx.get_bucket("b").unwrap(); { let k = String::from("owned"); b.put(k, vec![1u8, 2]).unwrap(); } b.put(7u64.to_be_bytes(), [0u8; 4]).unwrap(); tx.commit().unwrap(); } println!("ran-ok");'),
    "ok-reopen-by-name": ("accept", 'let db = setup("$P"); { let tx = db.tx(false).unwrap(); let b = tx.get_bucket("b").unwrap(); for (name, _) in b.buckets() { let again = b.get_bucket(&name).unwrap(); use_it(&again.next_int()); } } println!("ran-ok");'),
}


def build_lib():
    env = dict(vlib.ENV, CARGO_TARGET_DIR=API_TARGET)
    rc, o, e, _ = vlib.sh(["cargo", "build", "--lib", "--offline"], cwd=vlib.REPO, env=env, timeout=1200)
    if rc != 0:
        return None, e[-800:]
    return os.path.join(API_TARGET, "debug", "libjammdb.rlib"), ""


def compile_and_run(workdir, name, src_text, rlib, run=True):
    src = os.path.join(workdir, name + ".rs")
    exe = os.path.join(workdir, name + ".bin")
    open(src, "w").write(src_text)
    cmd = ["rustc", "--edition", "2021", "--crate-name", "prog", "-L", "dependency=" + os.path.join(API_TARGET, "debug", "deps"),
           "--extern", "jammdb=" + rlib, "--error-format=short", src]
    # type check (and borrow check) only first: cheap
    rc, o, e, _ = vlib.sh(cmd + ["--emit=metadata", "-o", os.path.join(workdir, name + ".rmeta")], timeout=300)
    codes = sorted(set(re.findall(r"error\[(E\d+)\]", e)))
    if rc != 0:
        return {"verdict": "reject", "codes": codes, "stderr": e[-300:]}
    res = {"verdict": "accept", "codes": []}
    if run:
        rc2, o2, e2, _ = vlib.sh(cmd + ["-o", exe], timeout=600)
        if rc2 != 0:
            return {"verdict": "reject", "codes": sorted(set(re.findall(r"error\[(E\d+)\]", e2))), "stderr": e2[-300:]}
        rc3, o3, e3, _ = vlib.sh([exe], timeout=120)
        res["run_rc"] = rc3
        res["run_ok"] = rc3 == 0 and "ran-ok" in o3
        res["run_err"] = (e3 or "")[-200:]
        try:
            os.remove(exe)
        except OSError:
            pass
    return res
