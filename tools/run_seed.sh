#!/bin/bash
# usage: run_seed.sh <seed id> <prop> [<prop>...] : apply the seeded change to /repo, run the quick checks, undo.
ID=$1; shift
cd /verif
git -C /repo diff --quiet || { echo "/repo dirty"; exit 2; }
git -C /repo apply /verif/seeded/$ID/patch.diff || { echo "patch does not apply"; exit 2; }
# evidence files describe runs on the unchanged tree only: keep them aside
rm -rf /verif/.work/evidence.keep; cp -r /verif/evidence /verif/.work/evidence.keep
for P in "$@"; do
  out=$(./check $P --tier quick 2>/dev/null | grep -E "^(VIOLATION|OK|KNOWN)" | head -3 | cut -c1-200)
  echo "SEED $ID CHECK $P -> $out"
done
git -C /repo checkout -- .
rm -rf /verif/evidence; mv /verif/.work/evidence.keep /verif/evidence
JAMM_GEN_API=1 python3 /verif/tools/gen_all.py >/dev/null
