#!/usr/bin/env python3
"""Translators: regenerate lean/Jamm/Gen/*.lean from /repo/src on every run.

Pattern-based (not a Rust semantics) and in the trusted base; they fail loudly (non-zero exit, last
line names what was not found) when a marker they rely on disappears or appears an unexpected number
of times.  Files are rewritten only when their content changes, so an unchanged source costs no
rebuild."""
import os
import re
import sys
sys.path.insert(0, os.path.dirname(os.path.abspath(__file__)))

REPO = "/repo/src"
OUT = "/verif/lean/Jamm/Gen"


class GenError(Exception):
    pass


def src(name):
    return open(os.path.join(REPO, name)).read()


def strip_comments(s):
    s = re.sub(r"/\*.*?\*/", "", s, flags=re.S)
    return "\n".join(l.split("//")[0] for l in s.split("\n"))


def write_if_changed(name, text):
    os.makedirs(OUT, exist_ok=True)
    p = os.path.join(OUT, name)
    old = open(p).read() if os.path.exists(p) else None
    if old != text:
        with open(p, "w") as f:
            f.write(text)


PRIM = {"u8": (1, 1), "u32": (4, 4), "u64": (8, 8), "PageID": (8, 8), "PageType": (1, 1), "NodeType": (1, 1), "usize": (8, 8)}


def parse_struct(text, name):
    m = re.search(r"#\[repr\(C\)\]\s*(?:#\[[^\]]*\]\s*)*pub(?:\(crate\))?\s+struct\s+%s\s*\{(.*?)\n\}" % name, text, flags=re.S)
    if not m:
        raise GenError("repr(C) struct %s not found" % name)
    body = strip_comments(m.group(1))
    fields = []
    for fm in re.finditer(r"(?:pub(?:\(crate\))?\s+)?(\w+)\s*:\s*([^,\n]+),", body):
        fields.append((fm.group(1), fm.group(2).strip()))
    if not fields:
        raise GenError("struct %s has no fields" % name)
    return fields


def layout_of(fields, structs):
    """C layout: returns (list of (name, offset, size), total size, align)"""
    off = 0
    align = 1
    out = []
    for fname, ty in fields:
        am = re.match(r"\[u8;\s*(\d+)\]", ty)
        if am:
            sz, al = int(am.group(1)), 1
        elif ty in PRIM:
            sz, al = PRIM[ty]
        elif ty in structs:
            _, sz, al = structs[ty]
        else:
            raise GenError("unknown field type %s" % ty)
        off = (off + al - 1) // al * al
        out.append((fname, off, sz))
        off += sz
        align = max(align, al)
    total = (off + align - 1) // align * align
    return out, total, align


def const_of(text, name, ty=None):
    m = re.search(r"const\s+%s\s*:\s*[\w:]+\s*=\s*([^;]+);" % name, text)
    if not m:
        raise GenError("const %s not found" % name)
    v = m.group(1).strip().replace("_", "")
    return v


def int_const(text, name):
    v = const_of(text, name)
    try:
        # allow simple products like 8 * 1024 * 1024
        return int(eval(v, {"__builtins__": {}}, {}))
    except Exception:
        raise GenError("const %s has a value this translator cannot evaluate: %s" % (name, v))


def gen_layout():
    page = src("page.rs")
    meta = src("meta.rs")
    bucket = src("bucket.rs")
    node = src("node.rs")
    db = src("db.rs")
    structs = {}
    bm = parse_struct(bucket, "BucketMeta")
    structs["BucketMeta"] = layout_of(bm, structs)
    pg = parse_struct(page, "Page")
    structs["Page"] = layout_of(pg, structs)
    le = parse_struct(page, "LeafElement")
    structs["LeafElement"] = layout_of(le, structs)
    be = parse_struct(page, "BranchElement")
    structs["BranchElement"] = layout_of(be, structs)
    mt = parse_struct(meta, "Meta")
    structs["Meta"] = layout_of(mt, structs)
    om = parse_struct(meta, "OldMeta")
    structs["OldMeta"] = layout_of(om, structs)

    def off(s, f):
        for n, o, _ in structs[s][0]:
            if n == f:
                return o
        raise GenError("field %s.%s not found" % (s, f))

    def size(s, f):
        for n, _, z in structs[s][0]:
            if n == f:
                return z
        raise GenError("field %s.%s not found" % (s, f))

    consts = {
        "typeBranch": int_const(page, "TYPE_BRANCH"),
        "typeLeaf": int_const(page, "TYPE_LEAF"),
        "typeMeta": int_const(page, "TYPE_META"),
        "typeFreelist": int_const(page, "TYPE_FREELIST"),
        "magic": int_const(db, "MAGIC_VALUE"),
        "version": int_const(db, "VERSION"),
    }
    # node element types
    nt = re.search(r"TYPE_DATA\s*:\s*NodeType\s*=\s*(0x[0-9a-fA-F]+|\d+)", node)
    nb = re.search(r"TYPE_BUCKET\s*:\s*NodeType\s*=\s*(0x[0-9a-fA-F]+|\d+)", node)
    if not nt or not nb:
        raise GenError("Node::TYPE_DATA / TYPE_BUCKET not found")
    consts["elemData"] = int(nt.group(1), 0)
    consts["elemBucket"] = int(nb.group(1), 0)
    # where element arrays / the header record start inside a page: `&self.ptr`
    for fn in ["meta", "freelist", "leaf_elements", "branch_elements"]:
        m = re.search(r"fn %s\(&self\).*?\n    \}" % fn, page, flags=re.S)
        if not m or "&self.ptr" not in m.group(0):
            raise GenError("Page::%s no longer starts at &self.ptr" % fn)
    # element key/value addressing: pos relative to the element's own address, value follows key
    if not re.search(r"impl BranchElement.*?let pos = self\.pos as usize;.*?self as \*const BranchElement as \*const u8", page, flags=re.S):
        raise GenError("BranchElement::key addressing changed")
    if not re.search(r"impl LeafElement.*?let pos = self\.pos as usize;.*?let pos = \(self\.pos \+ self\.key_size\) as usize;", page, flags=re.S):
        raise GenError("LeafElement::key/value addressing changed")

    fields = [
        ("pageSize", structs["Page"][1]),
        ("pgId", off("Page", "id")),
        ("pgType", off("Page", "page_type")),
        ("pgCount", off("Page", "count")),
        ("pgOverflow", off("Page", "overflow")),
        ("pgPtr", off("Page", "ptr")),
        ("leafSize", structs["LeafElement"][1]),
        ("leafType", off("LeafElement", "node_type")),
        ("leafPos", off("LeafElement", "pos")),
        ("leafKsize", off("LeafElement", "key_size")),
        ("leafVsize", off("LeafElement", "value_size")),
        ("branchSize", structs["BranchElement"][1]),
        ("branchPage", off("BranchElement", "page")),
        ("branchKsize", off("BranchElement", "key_size")),
        ("branchPos", off("BranchElement", "pos")),
        ("bmSize", structs["BucketMeta"][1]),
        ("bmRoot", off("BucketMeta", "root_page")),
        ("bmNextInt", off("BucketMeta", "next_int")),
        ("metaSize", structs["Meta"][1]),
        ("mMetaPage", off("Meta", "meta_page")),
        ("mMagic", off("Meta", "magic")),
        ("mVersion", off("Meta", "version")),
        ("mPagesize", off("Meta", "pagesize")),
        ("mRoot", off("Meta", "root")),
        ("mNumPages", off("Meta", "num_pages")),
        ("mFreelist", off("Meta", "freelist_page")),
        ("mTxId", off("Meta", "tx_id")),
        ("mHash", off("Meta", "hash")),
        ("mMetaPageSz", size("Meta", "meta_page")),
        ("mMagicSz", size("Meta", "magic")),
        ("mVersionSz", size("Meta", "version")),
        ("omSize", structs["OldMeta"][1]),
        ("omHash", off("OldMeta", "hash")),
        ("omHashSz", size("OldMeta", "hash")),
    ] + sorted(consts.items())
    # OldMeta must share the field prefix with Meta
    for f in ["meta_page", "magic", "version", "pagesize", "root", "num_pages", "freelist_page", "tx_id"]:
        if off("OldMeta", f) != off("Meta", f):
            raise GenError("OldMeta.%s is not at Meta's offset" % f)

    body = ["/- GENERATED by /verif/tools/gen_all.py from /repo/src (page.rs, meta.rs, bucket.rs, node.rs, db.rs). Do not edit. -/",
            "import Jamm.Model.Layout", "", "namespace Jamm.Gen", "", "def layout : Jamm.Layout where"]
    for k, v in fields:
        body.append("  %s := %d" % (k, v))
    body += ["", "end Jamm.Gen", ""]
    write_if_changed("Layout.lean", "\n".join(body))
    return dict(fields)


HASH_FIELD_NAMES = {
    "meta_page": "metaPage", "magic": "magic", "version": "version", "pagesize": "pagesize",
    "root.root_page": "rootPage", "root.next_int": "nextInt", "num_pages": "numPages",
    "freelist_page": "freelistPage", "tx_id": "txId",
}


def gen_hash_order():
    meta = strip_comments(src("meta.rs"))
    m = re.search(r"impl Meta \{.*?fn hash_self\(&self\) -> u64 \{(.*?)\n    \}", meta, flags=re.S)
    if not m:
        raise GenError("Meta::hash_self not found")
    body = m.group(1)
    if "FnvHasher::default()" not in body or "hasher.finish()" not in body:
        raise GenError("Meta::hash_self no longer uses FnvHasher::default()/finish()")
    def fields_fed(body_, sink, what):
        """the field of `self` each `<sink>.write(&…)` feeds, in order.  Accepted forms: `self.f.to_be_bytes()`
        and `helper(self.f)` for a helper of this file (the encoding a helper produces is not read here: a
        wrong width or byte order makes the model's checksum differ from the one in every real header, which
        the correspondence run reports); an explicit non-big-endian conversion is refused."""
        out = []
        for w in re.finditer(sink + r"\.write\(&(.*?)\);", body_, flags=re.S):
            e = w.group(1)
            fs = re.findall(r"self\.([\w\.]+?)(?:\.to_\w+\(\))?(?=[\s\),]|$)", e)
            fs = [f for f in fs if f in HASH_FIELD_NAMES]
            conv = re.findall(r"\.(to_\w+)\(\)", e)
            if any(c != "to_be_bytes" for c in conv):
                raise GenError("%s hashes %s with %s, expected big-endian" % (what, e.strip()[:40], conv))
            if len(fs) != 1:
                raise GenError("%s has a %s.write this translator cannot read: %s" % (what, sink, e.strip()[:60]))
            out.append(HASH_FIELD_NAMES[fs[0]])
        if len(re.findall(sink + r"\.write", body_)) != len(out):
            raise GenError("%s has a %s.write this translator cannot read" % (what, sink))
        return out
    order = fields_fed(body, "hasher", "Meta::hash_self")
    # the legacy digest input: the method of `impl OldMeta` that builds a `bytes::Bytes` through a writer `w`
    om = re.search(r"impl OldMeta \{(.*?)\n\}", meta, flags=re.S)
    m2 = re.search(r"fn \w+\(&self\) -> bytes::Bytes \{(.*?)\n    \}", om.group(1), flags=re.S) if om else None
    if not m2:
        raise GenError("OldMeta: the function building the digest input was not found")
    old_order = fields_fed(m2.group(1), "w", "OldMeta digest input")
    if not old_order:
        raise GenError("OldMeta digest input changed")
    valid = re.search(r"fn valid\(&self\) -> bool \{\s*self\.hash == self\.hash_self\(\)\s*\}", meta[meta.index("impl Meta {"):meta.index("impl OldMeta {")] if "impl Meta {" in meta and "impl OldMeta {" in meta else "")
    if not valid:
        raise GenError("Meta::valid is no longer `self.hash == self.hash_self()`")
    txt = ["/- GENERATED by /verif/tools/gen_all.py from /repo/src/meta.rs. Do not edit. -/",
           "import Jamm.Model.Layout", "", "namespace Jamm.Gen", "",
           "/-- fields fed to the header checksum by `Meta::hash_self`, in order, each big-endian -/",
           "def hashOrder : List Jamm.MetaField := [%s]" % ", ".join("." + f for f in order), "",
           "/-- fields fed to the legacy SHA3 digest by `OldMeta::bytes` -/",
           "def oldHashOrder : List Jamm.MetaField := [%s]" % ", ".join("." + f for f in old_order), "",
           "end Jamm.Gen", ""]
    write_if_changed("HashOrder.lean", "\n".join(txt))


def gen_params():
    node = src("node.rs")
    db = src("db.rs")
    fl = src("freelist.rs")
    minkeys = int_const(node, "MIN_KEYS_PER_NODE")
    fp = const_of(node, "FILL_PERCENT")
    try:
        fpf = float(fp)
    except ValueError:
        raise GenError("FILL_PERCENT not a float literal: %s" % fp)
    from fractions import Fraction
    fr = Fraction(fp)
    min_alloc = int_const(db, "MIN_ALLOC_SIZE")
    # the two OS-level options only reach the map call and the open call (what "they only select OS flags" means)
    allsrc = {f: strip_comments(src(f)) for f in ("db.rs", "tx.rs", "bucket.rs", "node.rs", "freelist.rs", "page.rs", "cursor.rs", "meta.rs")}
    for f, txt in allsrc.items():
        for opt in ("mmap_populate", "direct_write"):
            n = len(re.findall(opt, txt))
            if f != "db.rs" and n:
                raise GenError("%s is used outside db.rs (%s): it no longer only selects an OS flag" % (opt, f))
    dbs = allsrc["db.rs"]
    uses_pop = re.findall(r"[^\n]*mmap_populate[^\n]*", dbs)
    ok_pop = [u for u in uses_pop if re.search(r"pub fn mmap_populate\(mut self, mmap_populate: bool\)|self\.flags\.mmap_populate = mmap_populate;|mmap_populate: false,|pub\(crate\) mmap_populate: bool,|let mmap = mmap\(&?file, (self\.)?flags\.mmap_populate\)\?;", u)]
    if len(ok_pop) != len(uses_pop) or not re.search(r"if populate \{\s*options\.populate\(\);\s*\}", dbs):
        raise GenError("db.rs: mmap_populate is used somewhere other than the option setter and the two mmap calls")
    uses_dw = [u for u in re.findall(r"[^\n]*direct_write[^\n]*", dbs)]
    ok_dw = [u for u in uses_dw if re.search(r"pub fn direct_writes|self\.flags\.direct_writes = direct_writes|direct_writes: false|pub\(crate\) direct_writes: bool|open_file\(path, true, self\.flags\.direct_writes\)|fn open_file<P: AsRef<Path>>\(path: P, create: bool, direct_write: bool\)|if direct_write \{", u)]
    if len(ok_dw) != len(uses_dw):
        raise GenError("db.rs: direct_writes is used somewhere other than the option setter and open_file")
    # the growth formula the theorems of C16 are about (`grownSize`): pinned textually
    txs = strip_comments(src("tx.rs"))
    if not re.search(r"let alloc_size = \(\(size_diff / MIN_ALLOC_SIZE\) \+ 1\) \* MIN_ALLOC_SIZE;", txs) or \
       not re.search(r"resize\(file, current_size \+ alloc_size\)", txs) or \
       not re.search(r"let size_diff = required_size - current_size;", txs):
        raise GenError("tx.rs: the file-growth computation is no longer `((size_diff / MIN_ALLOC_SIZE) + 1) * MIN_ALLOC_SIZE` added to the current size")
    default_pages = int_const(db, "DEFAULT_NUM_PAGES")
    nm = re.search(r"fn needs_merging\(&self\) -> bool \{\s*self\.data\.len\(\) < MIN_KEYS_PER_NODE \|\| self\.size\(\) < \(self\.pagesize / (\d+)\)\s*\}", node)
    if not nm:
        raise GenError("Node::needs_merging changed shape")
    sp = re.search(r"if self\.data\.len\(\) <= \(MIN_KEYS_PER_NODE \* 2\) \|\| self\.size\(\) < self\.pagesize \{", node)
    if not sp:
        raise GenError("Node::split guard changed shape")
    m = re.search(r"if pagesize < (\d+) \{\s*panic!\(\"Pagesize must be", db)
    n = re.search(r"if num_pages < (\d+) \{\s*panic!\(\"Must have a minimum", db)
    if not m or not n:
        raise GenError("OpenOptions minimum checks not found")
    al = re.search(r"if pagesize % (\d+) != 0 \{\s*panic!\(\"Pagesize must be a multiple", db)
    if not al:
        raise GenError("OpenOptions::pagesize no longer refuses misaligned page sizes")
    txt = ["/- GENERATED by /verif/tools/gen_all.py from /repo/src (node.rs, db.rs). Do not edit. -/",
           "import Jamm.Model.Params", "", "namespace Jamm.Gen", "",
           "def params : Jamm.Params where",
           "  minKeysPerNode := %d" % minkeys,
           "  fillNum := %d" % fr.numerator,
           "  fillDen := %d" % fr.denominator,
           "  mergeDivisor := %d" % int(nm.group(1)),
           "  minAllocSize := %d" % min_alloc,
           "  defaultNumPages := %d" % default_pages,
           "  minPagesize := %d" % int(m.group(1)),
           "  minNumPages := %d" % int(n.group(1)),
           "  pagesizeAlign := %d" % int(al.group(1)),
           "", "end Jamm.Gen", ""]
    write_if_changed("Params.lean", "\n".join(txt))


def poison(name, reason):
    """a generated file whose elaboration fails, naming why: only the properties whose theorems import
    this part of the generated model then report a broken obligation"""
    msg = reason.replace('"', "'").replace("\n", " ")
    write_if_changed(name, '/- GENERATION FAILED -/\nimport Jamm.Model.Steps\nimport Jamm.Model.Layout\nimport Jamm.Model.Params\n'
                     'namespace Jamm.Gen\ntheorem translator_failed : False := by\n  fail "translator: %s"\nend Jamm.Gen\n' % msg)


def main():
    import gen_steps
    parts = [("Layout.lean", gen_layout), ("HashOrder.lean", gen_hash_order), ("Params.lean", gen_params),
             ("Steps.lean", gen_steps.gen_steps), ("Sites.lean", gen_steps.gen_sites)]
    if os.environ.get("JAMM_GEN_API") == "1":
        import gen_api
        def api():
            try:
                gen_api.gen_api()
            except RuntimeError as e:
                raise GenError(str(e))
        parts.append(("Api.lean", api))
    failed = []
    for name, fn in parts:
        try:
            fn()
        except Exception as e:
            if type(e).__name__ != "GenError":
                raise
            poison(name, str(e))
            failed.append("%s: %s" % (name, e))
    if failed:
        print("GENERATION FAILED (partially)")
        for f in failed:
            print("translator: " + f)
        sys.exit(3)
    print("gen ok")


if __name__ == "__main__":
    sys.path.insert(0, os.path.dirname(os.path.abspath(__file__)))
    main()
