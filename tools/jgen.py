"""History generators for the correspondence streams.

The generator keeps a *shadow* of what it believes the database holds, only in order to produce
mostly-valid operations (existing keys to overwrite / delete, existing buckets to open).  It is not
an oracle: expected outcomes come from the Lean specification run by the driver.
Every random choice comes from one `random.Random(seed)`.
"""
import copy
import random


def hx(b: bytes) -> str:
    return b.hex() if b else "-"


def vtok(b: bytes) -> str:
    """canonical value token: long uniform values are run-length coded (`z<len>:<hh>`), else hex"""
    if len(b) >= 64 and b.count(b[0]) == len(b):
        return "z%d:%02x" % (len(b), b[0])
    return hx(b)


class Shadow:
    """nested dict: {'n': int, 'items': {key: bytes | Shadow}}"""

    def __init__(self):
        self.items = {}

    def bucket(self, path):
        b = self
        for name in path:
            nxt = b.items.get(name)
            if not isinstance(nxt, Shadow):
                return None
            b = nxt
        return b


class HistGen:
    def __init__(self, seed, profile=None):
        self.rng = random.Random(seed)
        self.p = {
            "pagesize": 1024,
            "numpages": 32,
            "strict": 0,
            "populate": 0,
            "txs": 6,
            "ops": 60,
            "families": ["deep", "short"],
            "nest": 3,
            "p_drop": 0.15,
            "p_reopen": 0.15,
            "p_bucket_ops": 0.15,
            "p_reads": 0.25,
            "p_delete": 0.25,
            "readers": 0,
            "p_misuse": 0.02,
            "read_after_every_op": False,
            "big_values": True,
            "file": True,
            "layerc": True,
        }
        if profile:
            self.p.update(profile)
        self.lines = []
        self.committed = Shadow()
        self.next_tx = 1
        self.next_h = 1
        self.open_readers = []  # (tx id, shadow, handles)

    # ---- keys and values -------------------------------------------------------------------
    def key(self):
        fam = self.rng.choice(self.p["families"])
        r = self.rng
        if fam == "deep":
            # 200-byte keys: a few dozen give a three-level tree at page size 1024
            i = r.randrange(0, 64)
            return (b"k%04d" % i).ljust(200, b"x")
        if fam == "mid":
            i = r.randrange(0, 200)
            return (b"m%05d" % i).ljust(40, b"y")
        if fam == "short":
            n = r.choice([0, 1, 1, 2, 3, 8])
            return bytes(r.randrange(0, 256) for _ in range(n)) if r.random() < 0.5 else bytes(r.choice(b"abcdef") for _ in range(n))
        if fam == "huge":
            i = r.randrange(0, 8)
            return (b"h%02d" % i).ljust(r.choice([1100, 2500]), b"z")
        if fam == "tiny":
            return b"t%03d" % r.randrange(0, 400)
        if fam == "prefix":
            # keys that are proper prefixes of one another (ordering must break ties by length); with the
            # 150-byte values this family is given they spread over several leaves
            c = r.choice([b"k", b"p", b"kq"])
            return c * r.randrange(0, 40)
        raise ValueError(fam)

    def value(self):
        r = self.rng
        c = r.random()
        if c < 0.1:
            return b""
        if c < 0.5:
            return bytes(r.randrange(0, 256) for _ in range(r.randrange(1, 16)))
        if c < 0.9 or not self.p["big_values"]:
            n = r.randrange(100, 700)
            return bytes([r.randrange(0, 256)]) * n
        n = r.choice([1024, 1500, 3000, 5200])
        return bytes([r.randrange(0, 256)]) * n

    def near_key(self, items):
        """a key at / next to an existing one (append a byte, decrement last byte) or random"""
        r = self.rng
        keys = sorted(items.keys())
        if not keys or r.random() < 0.2:
            return self.key()
        k = r.choice(keys)
        c = r.random()
        if c < 0.4:
            return k
        if c < 0.6:
            return k + b"\x00"
        if c < 0.8 and k:
            return k[:-1] + bytes([max(0, k[-1] - 1)]) + b"\xff"
        if c < 0.9:
            return b""
        return b"\xff" * 3

    # ---- emit -----------------------------------------------------------------------------
    def emit(self, s):
        self.lines.append(s)

    def header(self, hid):
        p = self.p
        self.emit("hist %s" % hid)
        self.emit("cfg pagesize=%d numpages=%d strict=%d populate=%d" % (p["pagesize"], p["numpages"], p["strict"], p["populate"]))
        self.emit("open")

    # ---- one write transaction --------------------------------------------------------------
    def write_tx(self, nops):
        r = self.rng
        t = self.next_tx
        self.next_tx += 1
        self.emit("begin %d w" % t)
        sh = copy.deepcopy(self.committed)
        handles = {}  # id -> (path tuple, alive)

        def open_handle(path):
            """emit ops that open (creating if needed) the bucket at path; returns handle id"""
            hp = 0
            cur = ()
            for name in path:
                cur = cur + (name,)
                # reuse a live handle for this path if we have one
                found = [h for h, (pp, alive) in handles.items() if pp == cur and alive]
                if found and r.random() < 0.8:
                    hp = found[0]
                    continue
                h = self.next_h
                self.next_h += 1
                parent = sh.bucket(cur[:-1])
                exists = parent is not None and isinstance(parent.items.get(name), Shadow)
                if exists:
                    op = r.choice(["getb", "gocb"])
                else:
                    op = r.choice(["mkb", "gocb"])
                    if parent is not None and name not in parent.items:
                        parent.items[name] = Shadow()
                self.emit("%s %d %d %d %s" % (op, t, h, hp, hx(name)))
                handles[h] = (cur, True)
                hp = h
            return hp

        def pick_path():
            # choose an existing bucket path or invent a new one
            paths = []

            def walk(b, p):
                for k, v in b.items.items():
                    if isinstance(v, Shadow):
                        paths.append(p + (k,))
                        walk(v, p + (k,))

            walk(sh, ())
            if paths and r.random() < 0.8:
                return r.choice(paths)
            depth = r.randrange(1, self.p["nest"] + 1)
            base = r.choice(paths) if paths and r.random() < 0.5 else ()
            p = base
            while len(p) < depth:
                p = p + (r.choice([b"b0", b"b1", b"b2", b"bucket-" + bytes([97 + r.randrange(4)])]),)
            # a name may clash with an existing kv key: that exercises IncompatibleValue; keep it rare
            return p

        def reads(h, b):
            c = r.random()
            items = b.items
            if c < 0.25:
                self.emit("scan %d %d" % (t, h))
            elif c < 0.45:
                self.emit("seek %d %d %s" % (t, h, hx(self.near_key(items))))
            elif c < 0.7:
                def bound():
                    x = r.random()
                    if x < 0.2:
                        return "u"
                    return ("i:" if x < 0.6 else "e:") + hx(self.near_key(items))
                self.emit("range %d %d %s %s" % (t, h, bound(), bound()))
            elif c < 0.8:
                self.emit("get %d %d %s" % (t, h, hx(self.near_key(items))))
            elif c < 0.85:
                self.emit("getkv %d %d %s" % (t, h, hx(self.near_key(items))))
            elif c < 0.9:
                self.emit("nextint %d %d" % (t, h))
            elif c < 0.95:
                self.emit("buckets %d %d" % (t, h))
            else:
                self.emit("kvpairs %d %d" % (t, h))

        cur_path = None
        cur_h = None
        for _ in range(nops):
            if cur_path is None or r.random() < 0.1 or sh.bucket(cur_path) is None or not handles.get(cur_h, ((), False))[1]:
                cur_path = pick_path()
                cur_h = open_handle(cur_path)
                if sh.bucket(cur_path) is None:
                    cur_path = None
                    continue
            b = sh.bucket(cur_path)
            c = r.random()
            if r.random() < 0.03:
                # handles obtained through the buckets() iterator behave like any other handle
                subs = sorted(k for k, v in b.items.items() if isinstance(v, Shadow))
                hb = self.next_h
                self.emit("iterb %d %d %d" % (t, hb, cur_h))
                self.next_h += len(subs) + 1
                for i, name in enumerate(subs):
                    handles[hb + i] = (cur_path + (name,), True)
                continue
            if c < self.p["p_bucket_ops"]:
                # bucket-level op on the current bucket
                sub = [k for k, v in b.items.items() if isinstance(v, Shadow)]
                x = r.random()
                if sub and x < 0.45:
                    name = r.choice(sub)
                    self.emit("delb %d %d %s" % (t, cur_h, hx(name)))
                    pre = cur_path + (name,)
                    del b.items[name]
                    for hh, (pp, alive) in list(handles.items()):
                        if pp[: len(pre)] == pre:
                            handles[hh] = (pp, False)
                            # only a handle to the deleted bucket itself (alive until now) is the
                            # documented misuse; handles to its descendants are unspecified
                            if alive and pp == pre and r.random() < self.p["p_misuse"] * 10:
                                # documented misuse: the one permitted panic
                                self.emit("get %d %d %s" % (t, hh, hx(b"a")))
                elif x < 0.6:
                    # error paths: create existing, get missing, delete missing, bucket/kv clash
                    name = r.choice(list(b.items.keys())) if b.items and r.random() < 0.6 else self.key()
                    op = r.choice(["mkb", "getb", "delb"])
                    if op == "delb":
                        if isinstance(b.items.get(name), Shadow):
                            continue
                        self.emit("delb %d %d %s" % (t, cur_h, hx(name)))
                    else:
                        h = self.next_h
                        self.next_h += 1
                        self.emit("%s %d %d %d %s" % (op, t, h, cur_h, hx(name)))
                        if isinstance(b.items.get(name), Shadow):
                            if op == "getb":
                                handles[h] = (cur_path + (name,), True)
                        elif name not in b.items and op == "mkb":
                            b.items[name] = Shadow()
                            handles[h] = (cur_path + (name,), True)
                else:
                    name = r.choice([b"b0", b"b1", b"b2", b"n" + bytes([48 + r.randrange(10)])])
                    if name in b.items and not isinstance(b.items[name], Shadow):
                        continue
                    if len(cur_path) >= self.p["nest"] + 1:
                        continue
                    open_handle(cur_path + (name,))
            elif c < self.p["p_bucket_ops"] + self.p["p_reads"]:
                reads(cur_h, b)
            elif c < self.p["p_bucket_ops"] + self.p["p_reads"] + self.p["p_delete"]:
                kv = [k for k, v in b.items.items() if not isinstance(v, Shadow)]
                if kv and r.random() < 0.9:
                    k = r.choice(kv)
                    # delete a run of neighbours sometimes: this is what empties leaves
                    if r.random() < 0.3:
                        ks = sorted(kv)
                        i = ks.index(k)
                        for kk in ks[i : i + r.randrange(2, 8)]:
                            self.emit("del %d %d %s" % (t, cur_h, hx(kk)))
                            del b.items[kk]
                    else:
                        self.emit("del %d %d %s" % (t, cur_h, hx(k)))
                        del b.items[k]
                else:
                    self.emit("del %d %d %s" % (t, cur_h, hx(self.near_key(b.items))))
                    # may hit an existing kv (then it is deleted) — keep the shadow honest
                    k = self.lines[-1].split(" ")[3]
                    kb = bytes.fromhex(k) if k != "-" else b""
                    if kb in b.items and not isinstance(b.items[kb], Shadow):
                        del b.items[kb]
            else:
                k = self.key() if r.random() < 0.7 else self.near_key(b.items)
                v = self.value()
                self.emit("put %d %d %s %s" % (t, cur_h, hx(k), vtok(v)))
                if not isinstance(b.items.get(k), Shadow):
                    b.items[k] = v
            if self.p["read_after_every_op"] and cur_path is not None and sh.bucket(cur_path) is not None and handles.get(cur_h, ((), False))[1]:
                reads(cur_h, sh.bucket(cur_path))
                self.emit("scan %d %d" % (t, cur_h))
                if self.p.get("layerc") and self.p.get("file"):
                    self.emit("pretrees %d" % t)   # the overlay after this edit (Layer T tie)
        if self.p["read_after_every_op"]:
            self.emit("dump %d" % t)
        if r.random() < self.p["p_drop"]:
            self.emit("drop %d" % t)
        else:
            if self.p.get("layerc"):
                self.emit("pretrees %d" % t)
            self.emit("commit %d" % t)
            if self.p.get("layerc"):
                self.emit("notes")
            self.committed = sh

    def verify(self):
        if self.p.get("file"):
            self.emit("file")
            if self.p.get("flstate"):
                self.emit("flstate")
        t = self.next_tx
        self.next_tx += 1
        self.emit("begin %d r" % t)
        self.emit("dump %d" % t)
        self.emit("drop %d" % t)

    def history(self, hid):
        self.header(hid)
        r = self.rng
        for _ in range(self.p["txs"]):
            self.write_tx(r.randrange(1, self.p["ops"] + 1))
            self.verify()
            if r.random() < self.p.get("p_dbcheck", 0.3):
                self.emit("dbcheck")
            if r.random() < self.p["p_reopen"]:
                self.emit("reopen")
                self.verify()
        self.emit("close")
        return self.lines


def gen_random(seed, n, profile=None, prefix="r"):
    lines = []
    for i in range(n):
        g = HistGen(seed * 1000003 + i, profile)
        lines += g.history("%s%d" % (prefix, i))
    return lines


if __name__ == "__main__":
    import sys
    seed = int(sys.argv[1]) if len(sys.argv) > 1 else 1
    n = int(sys.argv[2]) if len(sys.argv) > 2 else 10
    print("\n".join(gen_random(seed, n)))


# ---- directed enumerations -------------------------------------------------------------------
def dkey(i, klen=200):
    return (b"k%04d" % i).ljust(klen, b"x")


def gen_range_deletes(nkeys, klen=200, vlen=10, every_bucket=0, touch=None, pagesize=1024, prefix="e", ranges=None, reinsert=False):
    """base tree of nkeys keys (every `every_bucket`-th entry a sub-bucket), then one transaction per
    history that deletes a contiguous key range (and optionally touches sub-bucket `touch`)."""
    lines = []
    rs = ranges if ranges is not None else [(i, j) for i in range(nkeys) for j in range(i + 1, nkeys + 1)]
    for (i, j) in rs:
        touches = [None] if not every_bucket else ([touch] if touch is not None else [None] + [t for t in range(0, nkeys, every_bucket)])
        for tb in touches:
            hid = "%s-n%d-k%d-v%d-b%d-%d-%d-t%s" % (prefix, nkeys, klen, vlen, every_bucket, i, j, tb)
            lines.append("hist %s" % hid)
            lines.append("cfg pagesize=%d numpages=32 strict=0 populate=0" % pagesize)
            lines.append("open")
            lines.append("begin 1 w")
            lines.append("mkb 1 1 0 %s" % hx(b"root"))
            for x in range(nkeys):
                if every_bucket and x % every_bucket == 0:
                    lines.append("mkb 1 %d 1 %s" % (100 + x, hx(dkey(x, klen))))
                    lines.append("put 1 %d %s %s" % (100 + x, hx(b"inner"), hx(b"v")))
                else:
                    lines.append("put 1 1 %s %s" % (hx(dkey(x, klen)), vtok(bytes([65 + x % 26]) * vlen)))
            lines.append("commit 1")
            lines.append("file")   # the stored trees the next transaction starts from (page prediction)
            lines.append("begin 2 w")
            lines.append("getb 2 1 0 %s" % hx(b"root"))
            if tb is not None and not (i <= tb < j):
                lines.append("getb 2 2 1 %s" % hx(dkey(tb, klen)))
                lines.append("put 2 2 %s %s" % (hx(b"touched"), hx(b"w")))
            for x in range(i, j):
                if every_bucket and x % every_bucket == 0:
                    lines.append("delb 2 1 %s" % hx(dkey(x, klen)))
                else:
                    lines.append("del 2 1 %s" % hx(dkey(x, klen)))
            lines.append("scan 2 1")
            if reinsert:
                for x in range(i, j, 2):
                    lines.append("put 2 1 %s %s" % (hx(dkey(x, klen)), hx(b"again")))
            lines.insert(len(lines), "pretrees 2")
            lines.append("commit 2")
            lines.append("notes")
            lines.append("file")
            lines.append("begin 3 r")
            lines.append("dump 3")
            lines.append("getb 3 1 0 %s" % hx(b"root"))
            lines.append("scan 3 1")
            lines.append("drop 3")
            lines.append("dbcheck")
            lines.append("reopen")
            lines.append("begin 4 r")
            lines.append("dump 4")
            lines.append("drop 4")
            lines.append("close")
    return lines


def gen_keep_window(nkeys, klen=200, vlen=10, every_bucket=4, pagesize=1024, prefix="kw", windows=None, maxw=8):
    """base tree of nkeys keys (every `every_bucket`-th entry a sub-bucket); one transaction per history
    deletes everything *outside* a window [a, b) without touching the window's own keys, and modifies a
    sub-bucket whose header lies inside the window: the tree collapses onto pages the transaction never
    loaded, while a nested bucket below them is dirty."""
    lines = []
    ws = windows if windows is not None else [(a, b) for a in range(nkeys) for b in range(a + 1, min(nkeys, a + maxw) + 1)]
    for (a, b) in ws:
        inside = [t for t in range(0, nkeys, every_bucket) if a <= t < b]
        for tb in inside or [None]:
            hid = "%s-n%d-k%d-b%d-%d-%d-t%s" % (prefix, nkeys, klen, every_bucket, a, b, tb)
            lines.append("hist %s" % hid)
            lines.append("cfg pagesize=%d numpages=32 strict=0 populate=0" % pagesize)
            lines.append("open")
            lines.append("begin 1 w")
            lines.append("mkb 1 1 0 %s" % hx(b"root"))
            for x in range(nkeys):
                if x % every_bucket == 0:
                    lines.append("mkb 1 %d 1 %s" % (100 + x, hx(dkey(x, klen))))
                    lines.append("put 1 %d %s %s" % (100 + x, hx(b"inner"), hx(b"v")))
                else:
                    lines.append("put 1 1 %s %s" % (hx(dkey(x, klen)), vtok(bytes([65 + x % 26]) * vlen)))
            lines.append("commit 1")
            lines.append("file")   # the stored trees the next transaction starts from (page prediction)
            lines.append("begin 2 w")
            lines.append("getb 2 1 0 %s" % hx(b"root"))
            if tb is not None:
                lines.append("getb 2 2 1 %s" % hx(dkey(tb, klen)))
                lines.append("put 2 2 %s %s" % (hx(b"touched"), hx(b"w")))
                lines.append("nextint 2 2")
            for x in list(range(0, a)) + list(range(b, nkeys)):
                if x % every_bucket == 0:
                    lines.append("delb 2 1 %s" % hx(dkey(x, klen)))
                else:
                    lines.append("del 2 1 %s" % hx(dkey(x, klen)))
            lines.append("pretrees 2")
            lines.append("commit 2")
            lines.append("notes")
            lines.append("file")
            lines.append("begin 3 r")
            lines.append("dump 3")
            lines.append("drop 3")
            lines.append("dbcheck")
            # further commits must not hand out a page that is still in use
            for t in (4, 5):
                lines.append("begin %d w" % t)
                lines.append("getb %d 1 0 %s" % (t, hx(b"root")))
                lines.append("put %d 1 %s %s" % (t, hx(b"zz%d" % t), vtok(b"n" * 210)))
                lines.append("commit %d" % t)
            lines.append("file")
            lines.append("dbcheck")
            lines.append("reopen")
            lines.append("begin 6 r")
            lines.append("dump 6")
            lines.append("drop 6")
            lines.append("close")
    return lines



def gen_freelist_boundary(ns, pagesize=1024, prefix="flb", rounds=5):
    """the persisted free list swept across a page boundary: a bucket of n entries (n / 4 pages at 200-byte values)
    is committed and deleted, so that roughly n / 4 page ids are on the free list; then small commits, each of
    which rewrites the free-list run (frees the old one, allocates the new one) — where a list of exactly
    (pagesize - 32) / 8 ids, one more and one fewer changes the length of that run.  File decoded and checked
    after every commit, and after a reopen."""
    lines = []
    for n in ns:
        lines.append("hist %s-p%d-n%d" % (prefix, pagesize, n))
        lines.append("cfg pagesize=%d numpages=32 strict=0 populate=0" % pagesize)
        lines.append("open")
        lines.append("begin 1 w")
        lines.append("mkb 1 1 0 %s" % hx(b"big"))
        for i in range(n):
            lines.append("put 1 1 %s %s" % (hx(b"%08d" % i), vtok(b"\x07" * 200)))
        lines.append("commit 1")
        lines.append("file")
        lines.append("dbcheck")
        lines.append("begin 2 w")
        lines.append("delb 2 0 %s" % hx(b"big"))
        lines.append("commit 2")
        lines.append("file")
        lines.append("dbcheck")
        t = 3
        for rd in range(rounds):
            lines.append("begin %d w" % t)
            lines.append("gocb %d %d 0 %s" % (t, 10 + rd, hx(b"small")))
            lines.append("put %d %d %s %s" % (t, 10 + rd, hx(b"r%04d" % rd), vtok(b"\x01" * 300)))
            lines.append("commit %d" % t)
            lines.append("file")
            lines.append("dbcheck")
            t += 1
        lines.append("reopen")
        lines.append("begin %d w" % t)
        lines.append("gocb %d 40 0 %s" % (t, hx(b"small")))
        lines.append("put %d 40 %s %s" % (t, hx(b"k"), hx(b"v")))
        lines.append("commit %d" % t)
        lines.append("file")
        lines.append("dbcheck")
        lines.append("begin %d r" % (t + 1))
        lines.append("dump %d" % (t + 1))
        lines.append("drop %d" % (t + 1))
        lines.append("close")
    return lines

def probe_keys(keys, r, limit=None):
    """present keys, gaps next to them, below the minimum, above the maximum"""
    ks = sorted(keys)
    out = [b"", b"\x00", b"\xff" * 4]
    for k in ks:
        out.append(k)
        out.append(k + b"\x00")
        if k:
            out.append(k[:-1] + bytes([max(0, k[-1] - 1)]) + b"\xff")
            out.append(k[:-1])
    out = list(dict.fromkeys(out))
    if limit and len(out) > limit:
        fixed = out[:3]
        rest = out[3:]
        r.shuffle(rest)
        out = fixed + rest[: limit - 3]
    return out


def read_battery(lines, t, h, keys, r, nseek=12, nrange=24):
    pk = probe_keys(keys, r, 60)
    lines.append("scan %d %d" % (t, h))
    lines.append("buckets %d %d" % (t, h))
    lines.append("kvpairs %d %d" % (t, h))
    lines.append("nextint %d %d" % (t, h))
    for n_, k in enumerate(r.sample(pk, min(nseek, len(pk)))):
        # every third seek re-positions a cursor that has already yielded some entries (or is exhausted)
        lines.append("seek %d %d %s" % (t, h, hx(k)) + (" %d" % r.choice([1, 2, 5, 1000]) if n_ % 3 == 2 else ""))
        lines.append("get %d %d %s" % (t, h, hx(k)))
    kinds = ["i", "e", "u"]
    for _ in range(nrange):
        a, b = r.choice(pk), r.choice(pk)
        ka, kb = r.choice(kinds), r.choice(kinds)
        lo = "u" if ka == "u" else "%s:%s" % (ka, hx(a))
        hi = "u" if kb == "u" else "%s:%s" % (kb, hx(b))
        lines.append("range %d %d %s %s" % (t, h, lo, hi))


def gen_emptied_leaves(nkeys, seed, n, klen=200, pagesize=1024):
    """C07: inside one write transaction, empty / nearly empty leaves and insert at leaf
    boundaries, with the full read API after each step"""
    r = random.Random(seed)
    lines = []
    # directed first: the tail and the head of the key space emptied (whole last / first leaves), then random ranges
    fixed = [(nkeys - t, nkeys) for t in (1, 2, 3, 4, 5, 6, 8, 11)] + [(0, t) for t in (1, 3, 4, 5, 8)]
    for c in range(n):
        if c < len(fixed):
            i, j = fixed[c]
        else:
            i = r.randrange(0, nkeys)
            j = min(nkeys, i + r.randrange(1, 10))
        every_bucket = r.choice([0, 0, 5])
        lines.append("hist el%d-%d-%d-b%d" % (c, i, j, every_bucket))
        lines.append("cfg pagesize=%d numpages=32 strict=0 populate=0" % pagesize)
        lines.append("open")
        lines.append("begin 1 w")
        lines.append("mkb 1 1 0 %s" % hx(b"root"))
        keys = set()
        for x in range(nkeys):
            if every_bucket and x % every_bucket == 0:
                lines.append("mkb 1 %d 1 %s" % (100 + x, hx(dkey(x, klen))))
            else:
                lines.append("put 1 1 %s %s" % (hx(dkey(x, klen)), vtok(bytes([65 + x % 26]) * 10)))
            keys.add(dkey(x, klen))
        lines.append("commit 1")
        lines.append("begin 2 w")
        lines.append("getb 2 1 0 %s" % hx(b"root"))
        for x in range(i, j):
            if every_bucket and x % every_bucket == 0:
                lines.append("delb 2 1 %s" % hx(dkey(x, klen)))
            else:
                lines.append("del 2 1 %s" % hx(dkey(x, klen)))
            keys.discard(dkey(x, klen))
            if r.random() < 0.3:
                lines.append("scan 2 1")
        read_battery(lines, 2, 1, keys, r)
        # insert around the hole and at the extremes
        for k in [dkey(i, klen)[:-1], dkey(j - 1, klen) + b"\x01", b"", b"zzzz", dkey(i, klen)]:
            if r.random() < 0.6:
                lines.append("put 2 1 %s %s" % (hx(k), hx(b"new")))
                keys.add(k)
                lines.append("scan 2 1")
        read_battery(lines, 2, 1, keys, r, 6, 10)
        lines.append("dump 2")
        lines.append(r.choice(["commit 2", "commit 2", "drop 2"]))
        lines.append("begin 3 r")
        lines.append("dump 3")
        lines.append("drop 3")
        lines.append("close")
    return lines


def gen_queries(seed, n, pagesize=1024):
    """C08: committed and mid-transaction buckets of several shapes × seek keys × bound pairs"""
    r = random.Random(seed)
    lines = []
    shapes = [(0, 200), (1, 200), (3, 200), (12, 200), (40, 200), (90, 200), (60, 30), (300, 12)]
    for c in range(n):
        nk, klen = shapes[c % len(shapes)]
        lines.append("hist q%d-n%d-k%d" % (c, nk, klen))
        lines.append("cfg pagesize=%d numpages=32 strict=0 populate=0" % pagesize)
        lines.append("open")
        lines.append("begin 1 w")
        lines.append("mkb 1 1 0 %s" % hx(b"q"))
        keys = set()
        hn = 100
        for x in range(nk):
            k = dkey(x * 3 + 1, klen)
            if r.random() < 0.15:
                hn += 1
                lines.append("mkb 1 %d 1 %s" % (hn, hx(k)))
            else:
                lines.append("put 1 1 %s %s" % (hx(k), vtok(bytes([r.randrange(256)]) * r.choice([0, 1, 20, 300]))))
            keys.add(k)
        read_battery(lines, 1, 1, keys, r, 8, 16)
        lines.append("commit 1")
        lines.append("begin 2 r")
        lines.append("getb 2 1 0 %s" % hx(b"q"))
        read_battery(lines, 2, 1, keys, r, 30, 80)
        lines.append("drop 2")
        # mid-transaction: delete a third, insert some, read again
        lines.append("begin 3 w")
        lines.append("getb 3 1 0 %s" % hx(b"q"))
        for k in sorted(keys):
            if r.random() < 0.35:
                lines.append("del 3 1 %s" % hx(k))  # may hit a bucket: IncompatibleValue, fine
        # the generator does not know which deletes hit buckets; probe around all original keys
        for _ in range(r.randrange(0, 6)):
            k = dkey(r.randrange(0, nk * 3 + 3), klen)
            lines.append("put 3 1 %s %s" % (hx(k), hx(b"mid")))
            keys.add(k)
        read_battery(lines, 3, 1, keys, r, 20, 40)
        lines.append("drop 3")
        lines.append("close")
    return lines


# ---- C06: rollbacks, failed calls, read-only use ----------------------------------------------
def gen_prefix_queries(seed, n, pagesize=1024):
    """C08: keys that are proper prefixes of one another (`k`, `kk`, `kkk`, …) over several leaves; one
    transaction deletes a contiguous range (so that leaves merge at commit), then the read battery on the
    committed bucket and inside a further transaction"""
    r = random.Random(seed)
    lines = []
    cases = [(c, nk, i, j) for c in (b"k", b"ab") for nk in (14, 30) for i in range(0, 6) for j in range(i + 1, i + 6)]
    r.shuffle(cases)
    for idx, (c, nk, i, j) in enumerate(cases[:n]):
        keys = [c * m for m in range(1, nk + 1)]
        lines.append("hist pq%d-%s-n%d-%d-%d" % (idx, c.decode(), nk, i, j))
        lines.append("cfg pagesize=%d numpages=32 strict=0 populate=0" % pagesize)
        lines.append("open")
        lines.append("begin 1 w")
        lines.append("mkb 1 1 0 %s" % hx(b"q"))
        for k in keys:
            lines.append("put 1 1 %s %s" % (hx(k), vtok(b"v" * 200)))
        lines.append("commit 1")
        lines.append("begin 2 w")
        lines.append("getb 2 1 0 %s" % hx(b"q"))
        live = set(keys)
        for k in keys[i:j]:
            lines.append("del 2 1 %s" % hx(k))
            live.discard(k)
        read_battery(lines, 2, 1, live, r, 8, 12)
        lines.append("commit 2")
        lines.append("file")
        lines.append("begin 3 r")
        lines.append("getb 3 1 0 %s" % hx(b"q"))
        read_battery(lines, 3, 1, live, r, 20, 30)
        lines.append("drop 3")
        lines.append("close")
    return lines


def gen_c06(seed, n, pagesize=1024):
    """histories with large rolled-back transactions (incl. bucket deletes), every mutator through
    read-only handles, and the file hashed before / after"""
    lines = []
    for c in range(n):
        g = HistGen(seed * 7919 + c, {"p_drop": 0.0, "p_reopen": 0.0, "txs": 1, "ops": 120, "families": ["deep", "tiny", "short"], "p_bucket_ops": 0.25, "pagesize": pagesize, "file": False})
        r = g.rng
        g.header("c6-%d" % c)
        # a committed base
        g.write_tx(r.randrange(40, 120))
        g.emit("fhash")
        for round_ in range(r.randrange(2, 5)):
            kind = r.random()
            if kind < 0.5:
                # a (large) transaction that is rolled back
                g.p["p_drop"] = 1.0
                g.p["p_bucket_ops"] = r.choice([0.1, 0.5])
                g.write_tx(r.randrange(20, 150))
                g.emit("fhash")
                g.verify()
                g.emit("fhash")
            elif kind < 0.75:
                # read-only transaction: every mutator must fail with ReadOnlyTx and change nothing
                t = g.next_tx
                g.next_tx += 1
                g.emit("begin %d r" % t)
                paths = []

                def walk(b, p):
                    for k, v in b.items.items():
                        if isinstance(v, Shadow):
                            paths.append(p + (k,))
                            walk(v, p + (k,))

                walk(g.committed, ())
                g.emit("mkb %d %d 0 %s" % (t, g.next_h, hx(b"ro-new")))
                g.emit("gocb %d %d 0 %s" % (t, g.next_h + 1, hx(b"ro-new")))
                g.emit("delb %d 0 %s" % (t, hx(paths[0][0] if paths else b"none")))
                g.next_h += 2
                # handles yielded by the iterators must be read-only too
                roots = sorted(k for k, v in g.committed.items.items() if isinstance(v, Shadow))
                hb = g.next_h
                g.emit("iterb %d %d 0" % (t, hb))
                g.next_h += len(roots) + 1
                for i, name in enumerate(roots[:3]):
                    hh = hb + i
                    g.emit("put %d %d %s %s" % (t, hh, hx(b"ro-iter"), hx(b"x")))
                    g.emit("mkb %d %d %d %s" % (t, g.next_h, hh, hx(b"ro-iter-b")))
                    g.emit("gocb %d %d %d %s" % (t, g.next_h + 1, hh, hx(b"ro-iter-b")))
                    g.next_h += 2
                    sub = g.committed.items[name]
                    ks = sorted(sub.items.keys())
                    if ks:
                        g.emit("del %d %d %s" % (t, hh, hx(ks[0])))
                        g.emit("delb %d %d %s" % (t, hh, hx(ks[0])))
                    subs = sorted(k for k, v in sub.items.items() if isinstance(v, Shadow))
                    hb2 = g.next_h
                    g.emit("iterb %d %d %d" % (t, hb2, hh))
                    g.next_h += len(subs) + 1
                    if subs:
                        g.emit("put %d %d %s %s" % (t, hb2, hx(b"ro-iter2"), hx(b"y")))
                    g.emit("scan %d %d" % (t, hh))
                for p in r.sample(paths, min(3, len(paths))):
                    hp = 0
                    for name in p:
                        h = g.next_h
                        g.next_h += 1
                        g.emit("getb %d %d %d %s" % (t, h, hp, hx(name)))
                        hp = h
                    b = g.committed.bucket(p)
                    ks = list(b.items.keys())
                    k = r.choice(ks) if ks else b"k"
                    g.emit("put %d %d %s %s" % (t, hp, hx(k), hx(b"ro")))
                    g.emit("put %d %d %s %s" % (t, hp, hx(b"ro-newkey"), hx(b"ro")))
                    g.emit("del %d %d %s" % (t, hp, hx(k)))
                    g.emit("mkb %d %d %d %s" % (t, g.next_h, hp, hx(b"ro-b")))
                    g.emit("gocb %d %d %d %s" % (t, g.next_h + 1, hp, hx(k)))
                    g.emit("delb %d %d %s" % (t, hp, hx(k)))
                    g.next_h += 2
                    g.emit("scan %d %d" % (t, hp))
                    g.emit("nextint %d %d" % (t, hp))
                g.emit("dump %d" % t)
                g.emit(r.choice(["commit %d" % t, "drop %d" % t]))
                g.emit("fhash")
            else:
                g.emit("reopen")
                g.emit("fhash")
                g.verify()
                g.emit("fhash")
            # a committed transaction in between: later commits behave as if nothing had happened
            if r.random() < 0.6:
                g.p["p_drop"] = 0.0
                g.write_tx(r.randrange(5, 60))
                g.emit("file")
                g.emit("fhash")
                g.verify()
        if c % 3 == 0:
            # a commit that fails (file extension refused): it must change nothing, in the file or in memory
            t = g.next_tx
            g.next_tx += 1
            h = g.next_h
            g.next_h += 1
            g.emit("fhash")
            g.emit("begin %d w" % t)
            g.emit("gocb %d %d 0 %s" % (t, h, hx(b"too-big")))
            for j in range(4):
                g.emit("put %d %d %s %s" % (t, h, hx(b"huge%d" % j), vtok(bytes([70 + j]) * (3 * 1024 * 1024))))
            paths = [k for k, v in g.committed.items.items() if isinstance(v, Shadow)]
            if paths:
                g.emit("delb %d 0 %s" % (t, hx(sorted(paths)[0])))
            g.emit("limit 4096")
            g.emit("commit %d" % t)
            g.emit("limit inf")
            g.emit("begin %d r" % g.next_tx)
            g.emit("dump %d" % g.next_tx)
            g.emit("drop %d" % g.next_tx)
            g.next_tx += 1
            g.emit("fhash")
            g.p["p_drop"] = 0.0
            for _ in range(3):
                g.write_tx(r.randrange(5, 30))
                g.emit("file")
                g.verify()
        g.emit("dbcheck")
        g.emit("close")
        lines += g.lines
    return lines


# ---- C03: long-lived readers ------------------------------------------------------------------
def gen_c03(seed, n, k_readers=4, pagesize=1024, numpages=12000):
    """single-threaded interleavings of up to k simultaneous readers with committing and
    rolling-back writers over update/delete heavy workloads; every open reader is re-dumped in full
    after every step.  The file is pre-sized so that no commit has to grow it while a reader is
    open on this thread (the documented self-deadlock)."""
    lines = []
    for c in range(n):
        g = HistGen(seed * 104729 + c, {"p_drop": 0.2, "p_reopen": 0.0, "txs": 1, "families": ["deep", "tiny"], "p_bucket_ops": 0.12, "p_delete": 0.4, "p_reads": 0.05, "pagesize": pagesize, "numpages": numpages, "file": False, "big_values": False})
        r = g.rng
        g.header("c3-%d" % c)
        g.write_tx(r.randrange(30, 80))
        g.emit("file")
        g.emit("flstate")
        readers = []
        for step in range(r.randrange(8, 20)):
            x = r.random()
            if x < 0.3 and len(readers) < k_readers:
                t = g.next_tx
                g.next_tx += 1
                g.emit("begin %d r" % t)
                readers.append(t)
            elif x < 0.45 and readers:
                t = readers.pop(r.randrange(len(readers)))
                g.emit("drop %d" % t)
            else:
                at = len(g.lines)
                g.write_tx(r.randrange(5, 50))
                # readers also come and go WHILE the writer is open (after its begin, before its commit or
                # rollback): the writer decided what to release when it began, the new reader registers
                # under the snapshot the writer started from
                end = max(i for i in range(at, len(g.lines)) if g.lines[i].startswith(("commit ", "drop ")))
                ins = []
                if r.random() < 0.5 and len(readers) < k_readers:
                    t = g.next_tx
                    g.next_tx += 1
                    ins.append((r.randrange(at + 1, end + 1), "begin %d r" % t))
                    readers.append(t)
                if r.random() < 0.3 and len(readers) > len(ins):
                    t = readers.pop(r.randrange(len(readers) - len(ins)))
                    ins.append((r.randrange(at + 1, end + 1), "drop %d" % t))
                for pos, line in sorted(ins, reverse=True):
                    g.lines.insert(pos, line)
                if any(l.startswith("commit") for l in g.lines[-2:]):   # (`notes` may follow the commit line)
                    g.emit("file")
                    g.emit("flstate")
            for t in readers:
                g.emit("dump %d" % t)
        for t in readers:
            g.emit("dump %d" % t)
            g.emit("drop %d" % t)
        g.emit("file")
        g.emit("dbcheck")
        g.emit("close")
        lines += g.lines
    return lines


# ---- C16: the same history under many configurations ------------------------------------------
def reconfigure(hist, cfgline, suffix, keep_file=True):
    out = []
    for l in hist:
        if l.startswith("hist "):
            out.append(l + suffix)
        elif l.startswith("cfg "):
            out.append(cfgline)
        elif l == "file" and not keep_file:
            continue
        else:
            out.append(l)
    return out


def gen_c16(seed, nbase, configs):
    base = []
    for i in range(nbase):
        g = HistGen(seed * 15485863 + i, {"families": ["deep", "tiny", "short", "huge"], "txs": 5, "ops": 50, "p_reopen": 0.2, "p_dbcheck": 0.5})
        base.append(g.history("c16-%d" % i))
    lines = []
    for (ps, np_, strict, pop) in configs:
        cfgline = "cfg pagesize=%d numpages=%d strict=%d populate=%d" % (ps, np_, strict, pop)
        for h in base:
            lines += reconfigure(h, cfgline, "-ps%d-np%d-s%d-m%d" % (ps, np_, strict, pop), keep_file=ps <= 16384)
    return lines


def gen_growth(seed, n):
    """files created at the minimum size that must grow through several 8 MiB extension steps"""
    lines = []
    r = random.Random(seed)
    for c in range(n):
        ps = r.choice([65536, 1048576, 16384])
        lines.append("hist grow%d-ps%d" % (c, ps))
        lines.append("cfg pagesize=%d numpages=4 strict=%d populate=%d" % (ps, r.randrange(2), r.randrange(2)))
        lines.append("open")
        t = 1
        total = 0
        keys = []
        target = 30 * 1024 * 1024
        burst_at = r.randrange(0, 6)
        ntx = 0
        while total < target:
            lines.append("begin %d w" % t)
            lines.append("gocb %d 1 0 %s" % (t, hx(b"g")))
            ntx += 1
            if ntx == burst_at + 1:
                # one commit that grows the file by more than one extension step at once
                nburst = r.choice([3, 5])
                for j in range(nburst):
                    lines.append("put %d 1 %s %s" % (t, hx(b"burst%d" % j), vtok(bytes([r.randrange(256)]) * (4 * 1024 * 1024 + r.randrange(0, 4096)))))
                total += nburst * 4 * 1024 * 1024
            for _ in range(r.randrange(1, 6)):
                k = b"g%06d" % r.randrange(0, 100000)
                vlen = r.choice([ps // 2, ps, ps * 2 + 17, 100])
                lines.append("put %d 1 %s %s" % (t, hx(k), vtok(bytes([r.randrange(256)]) * min(vlen, 300000))))
                total += min(vlen, 300000) + ps
                keys.append(k)
            lines.append("commit %d" % t)
            t += 1
            if r.random() < 0.2:
                lines.append("begin %d r" % t)
                lines.append("dump %d" % t)
                lines.append("drop %d" % t)
                t += 1
        lines.append("dbcheck")
        lines.append("reopen")
        lines.append("begin %d r" % t)
        lines.append("dump %d" % t)
        lines.append("drop %d" % t)
        lines.append("close")
    return lines



def gen_exact_fit(numpages_list, pagesize=4096, nvals=1300, prefix="fit"):
    """a file whose initial size is (almost) exactly what the data needs, so that the commit that follows finds the
    file full without any 8 MiB extension step having happened yet: transaction 1 fills a bucket with `nvals` values of
    one page each, transaction 2 deletes the bucket — more than (pagesize - 32) / 8 page ids go to the free list at
    once, so the new free-list run is several pages long and has to come from the end of the file.  Swept over initial
    page counts around the number of pages transaction 1 needs, strict mode on and off."""
    lines = []
    for np_ in numpages_list:
        for strict in (0, 1):
            lines.append("hist %s-p%d-n%d-s%d" % (prefix, pagesize, np_, strict))
            lines.append("cfg pagesize=%d numpages=%d strict=%d populate=0" % (pagesize, np_, strict))
            lines.append("open")
            lines.append("begin 1 w")
            lines.append("mkb 1 1 0 %s" % hx(b"big"))
            for i in range(nvals):
                lines.append("put 1 1 %s %s" % (hx(b"%08d" % i), vtok(bytes([i % 251]) * (pagesize - 200))))
            lines.append("mkb 1 2 0 %s" % hx(b"other"))
            lines.append("put 1 2 %s %s" % (hx(b"k"), hx(b"v")))
            lines.append("commit 1")
            lines.append("file")
            lines.append("begin 2 w")
            lines.append("delb 2 0 %s" % hx(b"big"))
            lines.append("commit 2")
            lines.append("file")
            lines.append("dbcheck")
            lines.append("begin 3 w")
            lines.append("getb 3 3 0 %s" % hx(b"other"))
            lines.append("put 3 3 %s %s" % (hx(b"k2"), vtok(b"\x05" * 3000)))
            lines.append("commit 3")
            lines.append("file")
            lines.append("dbcheck")
            lines.append("reopen")
            lines.append("begin 4 r")
            lines.append("dump 4")
            lines.append("drop 4")
            lines.append("close")
    return lines

# ---- C10: long runs with bounded live data -----------------------------------------------------
def gen_c10(seed, n, ntx=120, pagesize=1024, numpages=4000):
    """soak workloads: fixed-size / variable-size overwrite, delete and bucket-delete with bounded
    live data; periodic reopen; a reader held for a stretch (file pre-sized: the documented
    self-deadlock when a commit must grow the file while a reader is open on the same thread)."""
    lines = []
    for c in range(n):
        r = random.Random(seed * 7907 + c)
        kind = ["fixed", "variable", "buckets"][c % 3]
        lines.append("hist c10-%d-%s" % (c, kind))
        lines.append("cfg pagesize=%d numpages=%d strict=0 populate=0" % (pagesize, numpages))
        lines.append("open")
        t = 1
        h = 1
        reader = None
        nkeys = 60
        for i in range(ntx):
            lines.append("begin %d w" % t)
            if kind == "buckets":
                bname = b"bk%d" % (i % 4)
                if i >= 4 and r.random() < 0.5:
                    lines.append("delb %d 0 %s" % (t, hx(bname)))
                lines.append("gocb %d %d 0 %s" % (t, h, hx(bname)))
            else:
                lines.append("gocb %d %d 0 %s" % (t, h, hx(b"soak")))
            for _ in range(r.randrange(3, 14)):
                k = dkey(r.randrange(nkeys), 60)
                if r.random() < 0.25:
                    lines.append("del %d %d %s" % (t, h, hx(k)))
                else:
                    vlen = 300 if kind == "fixed" else r.choice([0, 10, 300, 900, 2500])
                    lines.append("put %d %d %s %s" % (t, h, hx(k), vtok(bytes([r.randrange(256)]) * vlen)))
            lines.append("commit %d" % t)
            if i % 5 != 4:
                lines.append("notes")      # every allocation call of the commit (4 of 5 commits; the rest use the order search)
            lines.append("file")
            lines.append("flstate")
            t += 1
            h += 1
            if reader is None and r.random() < 0.04:
                reader = t
                lines.append("begin %d r" % t)
                t += 1
            elif reader is not None and r.random() < 0.12:
                lines.append("dump %d" % reader)
                lines.append("drop %d" % reader)
                reader = None
            elif reader is None and r.random() < 0.05:
                lines.append("reopen")
                lines.append("file")
                lines.append("flstate")
        if reader is not None:
            lines.append("dump %d" % reader)
            lines.append("drop %d" % reader)
        lines.append("begin %d r" % t)
        lines.append("dump %d" % t)
        lines.append("drop %d" % t)
        lines.append("dbcheck")
        lines.append("close")
    return lines
